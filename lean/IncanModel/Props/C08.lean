import IncanModel.Lemmas.Ladder
/-
C08 — Formatting never changes what a program means: the expression ladder.

`roundtrip`: for every expression tree the parser can produce (any shape, any nesting depth, all 20
binary operators incl. the two-token `not in`, the three prefix operators, `?`, indexing, explicit
parentheses), parsing the formatter's output gives back exactly that tree — grouping, associativity
and operand order are preserved although the formatter never adds a parenthesis.  The statement is at
token level; turning the printed text into tokens is the lexer's job and is covered by the
correspondence check.
-/
namespace Incan.Ladder

/-- What is proved for each producible tree at each level. -/
def Mot (k : Nat) (e : Expr) : Prop :=
  (∀ rest, NoCont k rest → Conv (fun f => parse f k (fmt e ++ rest)) (e, rest)) ∧
  (kind k = .leftAssoc → ∀ rest R, NoCont (k + 1) rest → Conv (fun f => loop f k e rest) R →
      Conv (fun f => parse f k (fmt e ++ rest)) R) ∧
  (k = 9 → ∀ rest R, Conv (fun f => postLoop f e rest) R → Conv (fun f => parse f 9 (fmt e ++ rest)) R)

theorem mot_of_loop {k : Nat} {e : Expr} (hk : kind k = .leftAssoc) (hk9 : k ≠ 9)
    (hL : ∀ rest R, NoCont (k + 1) rest → Conv (fun f => loop f k e rest) R →
      Conv (fun f => parse f k (fmt e ++ rest)) R) : Mot k e :=
  ⟨fun rest hn => hL rest _ (hn.mono (by omega)) (step_loop_none (hn.1 k (Nat.le_refl k))),
   fun _ => hL, fun h => absurd h hk9⟩

theorem mot_of_post {e : Expr}
    (hP : ∀ rest R, Conv (fun f => postLoop f e rest) R → Conv (fun f => parse f 9 (fmt e ++ rest)) R) :
    Mot 9 e :=
  ⟨fun rest hn => hP rest _ (postLoop_done (hn.2 (Nat.le_refl 9))),
   fun h => by simp [kind] at h, fun _ => hP⟩

theorem mot_plain {k : Nat} {e : Expr} (hk : kind k ≠ .leftAssoc) (hk9 : k ≠ 9)
    (h : ∀ rest, NoCont k rest → Conv (fun f => parse f k (fmt e ++ rest)) (e, rest)) : Mot k e :=
  ⟨h, fun hh => absurd hh hk, fun hh => absurd hh hk9⟩

/-- Passing from level `k+1` down to level `k` (the `up` rule). -/
theorem mot_up {k : Nat} {e : Expr} (hk10 : k < 10) (hw : WL (k + 1) e) (ih : Mot (k + 1) e) : Mot k e := by
  have hcases : k = 0 ∨ k = 1 ∨ k = 2 ∨ k = 3 ∨ k = 4 ∨ k = 5 ∨ k = 6 ∨ k = 7 ∨ k = 8 ∨ k = 9 := by omega
  have left : ∀ {k}, kind k = .leftAssoc → k ≠ 9 → WL (k + 1) e → Mot (k + 1) e → Mot k e := by
    intro k hk hk9 _ ih
    exact mot_of_loop hk hk9 (fun rest R hn hl => step_left hk (ih.1 rest hn) hl)
  have pre : ∀ {k}, kind k = .prefix → k ≠ 9 → WL (k + 1) e → Mot (k + 1) e → Mot k e := by
    intro k hk hk9 hw ih
    exact mot_plain (by rw [hk]; simp) hk9
      (fun rest hn => step_pre_none hk (matchPre_none_of_level hw hk rest) (ih.1 rest (hn.mono (by omega))))
  rcases hcases with rfl | rfl | rfl | rfl | rfl | rfl | rfl | rfl | rfl | rfl
  · exact left rfl (by omega) hw ih
  · exact left rfl (by omega) hw ih
  · exact pre rfl (by omega) hw ih
  · exact left rfl (by omega) hw ih
  · exact mot_plain (by simp [kind]) (by omega)
      (fun rest hn => step_non_none rfl (ih.1 rest (hn.mono (by omega))) (hn.1 4 (Nat.le_refl 4)))
  · exact left rfl (by omega) hw ih
  · exact left rfl (by omega) hw ih
  · exact mot_plain (by simp [kind]) (by omega)
      (fun rest hn => step_right_none rfl (ih.1 rest (hn.mono (by omega))) (hn.1 7 (Nat.le_refl 7)))
  · exact pre rfl (by omega) hw ih
  · exact mot_of_post (fun rest R hp => step_post rfl (ih.1 rest (noCont_ten rest)) hp)

theorem mot_all {k : Nat} {e : Expr} (h : WL k e) : Mot k e := by
  induction h with
  | up hk hw ih => exact mot_up hk hw ih
  | atom a =>
    exact mot_plain (by simp [kind]) (by omega) (fun rest _ => by simpa [fmt] using prim_atom (k := 10) rfl a rest)
  | @paren e _ ih =>
    refine mot_plain (by simp [kind]) (by omega) (fun rest _ => ?_)
    have := ih.1 (.rparen :: rest) (noCont_rparen rest)
    have := prim_paren (k := 10) rfl this
    simpa [fmt] using this
  | @pre op e _ ih =>
    have hk : kind (popLevel op) = .prefix := by cases op <;> rfl
    have hk9 : popLevel op ≠ 9 := by cases op <;> simp [popLevel]
    refine mot_plain (by rw [hk]; simp) hk9 (fun rest hn => ?_)
    have := step_pre_some hk (matchPre_pop op (fmt e ++ rest)) (ih.1 rest hn)
    simpa [fmt] using this
  | @binLeft op l r hk _ _ ihl ihr =>
    have hk9 : bopLevel op ≠ 9 := by cases op <;> simp [bopLevel]
    refine mot_of_loop hk hk9 (fun rest R hn hl => ?_)
    have h1 := step_loop_some (left := l) (matchBin_bop op (fmt r ++ rest)) (ihr.1 rest hn) hl
    have h2 := ihl.2.1 hk (bopToks op ++ (fmt r ++ rest)) R (noCont_bop op _) h1
    simpa [fmt, List.append_assoc] using h2
  | @binRight op l r hk _ _ ihl ihr =>
    have hk9 : bopLevel op ≠ 9 := by cases op <;> simp [bopLevel]
    refine mot_plain (by rw [hk]; simp) hk9 (fun rest hn => ?_)
    have := step_right_some hk (ihl.1 (bopToks op ++ (fmt r ++ rest)) (noCont_bop op _))
      (matchBin_bop op (fmt r ++ rest)) (ihr.1 rest hn)
    simpa [fmt, List.append_assoc] using this
  | @binNon op l r hk _ _ ihl ihr =>
    have hk9 : bopLevel op ≠ 9 := by cases op <;> simp [bopLevel]
    refine mot_plain (by rw [hk]; simp) hk9 (fun rest hn => ?_)
    have := step_non_some hk (ihl.1 (bopToks op ++ (fmt r ++ rest)) (noCont_bop op _))
      (matchBin_bop op (fmt r ++ rest)) (ihr.1 rest (hn.mono (by omega)))
    simpa [fmt, List.append_assoc] using this
  | @try_ e _ ih =>
    refine mot_of_post (fun rest R hp => ?_)
    have := ih.2.2 rfl (.quest :: rest) R (postLoop_quest hp)
    simpa [fmt, List.append_assoc] using this
  | @index e i _ _ ihe ihi =>
    refine mot_of_post (fun rest R hp => ?_)
    have h1 := postLoop_index (e := e) (ihi.1 (.rbrack :: rest) (noCont_rbrack rest)) hp
    have := ihe.2.2 rfl (.lbrack :: (fmt i ++ .rbrack :: rest)) R h1
    simpa [fmt, List.append_assoc] using this

/-- **Round trip**: parsing the formatter's output of any producible expression gives back the same
tree, with nothing left over — for every sufficiently large fuel (the parser terminates). -/
theorem roundtrip (e : Expr) (h : WL 0 e) : ∃ f0, ∀ f, f0 ≤ f → parse f 0 (fmt e) = some (e, []) := by
  have := (mot_all h).1 [] noCont_nil
  simpa [Conv] using this

/-- The same inside any bracketed context: what follows (`)`, `]`) is left untouched. -/
theorem roundtrip_in_parens (e : Expr) (h : WL 0 e) (rest : List Tok) :
    ∃ f0, ∀ f, f0 ≤ f → parse f 0 (fmt e ++ .rparen :: rest) = some (e, .rparen :: rest) :=
  (mot_all h).1 _ (noCont_rparen rest)

/-- Consequently the formatter is injective on producible trees: two different expressions are never
printed as the same token sequence (no meaning is lost). -/
theorem fmt_injective (e₁ e₂ : Expr) (h₁ : WL 0 e₁) (h₂ : WL 0 e₂) (h : fmt e₁ = fmt e₂) : e₁ = e₂ := by
  obtain ⟨f1, r1⟩ := roundtrip e₁ h₁
  obtain ⟨f2, r2⟩ := roundtrip e₂ h₂
  have a := r1 (max f1 f2) (by omega)
  have b := r2 (max f1 f2) (by omega)
  rw [h] at a
  rw [a] at b
  exact (Prod.mk.inj (Option.some.inj b)).1

/-! ### Concrete instances -/

/-- `(1 + 2) * (3 - 4)`: producible, and it round-trips with its parentheses. -/
example : parse 40 0 (fmt (.bin .mul (.paren (.bin .add (.atom 1) (.atom 2))) (.paren (.bin .sub (.atom 3) (.atom 4)))))
    = some (.bin .mul (.paren (.bin .add (.atom 1) (.atom 2))) (.paren (.bin .sub (.atom 3) (.atom 4))), []) := by decide

/-- Without the `Paren` nodes the tree `(1 + 2) * 3` is *not* producible and would print as `1 + 2 * 3`,
which parses differently: the hypothesis `WL` is what the parser guarantees, not a convenience. -/
example : parse 40 0 (fmt (.bin .mul (.bin .add (.atom 1) (.atom 2)) (.atom 3)))
    = some (.bin .add (.atom 1) (.bin .mul (.atom 2) (.atom 3)), []) := by decide

/-- `-2 ** 2` is `(-2) ** 2` in Incan (unary binds tighter than power) and `a not in b` uses two tokens. -/
example : parse 40 0 [.minus, .atom 2, .starstar, .atom 2] = some (.bin .pow (.pre .neg (.atom 2)) (.atom 2), []) := by decide
example : parse 40 0 [.atom 1, .kwNot, .kwIn, .atom 2, .kwAnd, .kwNot, .atom 3]
    = some (.bin .and_ (.bin .notIn (.atom 1) (.atom 2)) (.pre .not_ (.atom 3)), []) := by decide

end Incan.Ladder
