import IncanModel.Lemmas.Ladder
import IncanModel.Syntax.Literals
/-
C08 — Formatting never changes what a program means: the expression ladder.

`roundtrip`: for every expression tree the parser can produce (any shape, any nesting depth, all 20
binary operators incl. the two-token `not in`, the three prefix operators, `?`, indexing, explicit
parentheses), parsing the formatter's output gives back exactly that tree — grouping, associativity
and operand order are preserved although the formatter never adds a parenthesis.  The statement is at
token level; turning the printed text into tokens is the lexer's job and is covered by the
correspondence check.
-/
namespace Incan.Ladder

/-- What is proved for each producible tree at each level. -/
def Mot (k : Nat) (e : Expr) : Prop :=
  (∀ rest, NoCont k rest → Conv (fun f => parse f k (fmt e ++ rest)) (e, rest)) ∧
  (kind k = .leftAssoc → ∀ rest R, NoCont (k + 1) rest → Conv (fun f => loop f k e rest) R →
      Conv (fun f => parse f k (fmt e ++ rest)) R) ∧
  (k = 9 → ∀ rest R, Conv (fun f => postLoop f e rest) R → Conv (fun f => parse f 9 (fmt e ++ rest)) R)

theorem mot_of_loop {k : Nat} {e : Expr} (hk : kind k = .leftAssoc) (hk9 : k ≠ 9)
    (hL : ∀ rest R, NoCont (k + 1) rest → Conv (fun f => loop f k e rest) R →
      Conv (fun f => parse f k (fmt e ++ rest)) R) : Mot k e :=
  ⟨fun rest hn => hL rest _ (hn.mono (by omega)) (step_loop_none (hn.1 k (Nat.le_refl k))),
   fun _ => hL, fun h => absurd h hk9⟩

theorem mot_of_post {e : Expr}
    (hP : ∀ rest R, Conv (fun f => postLoop f e rest) R → Conv (fun f => parse f 9 (fmt e ++ rest)) R) :
    Mot 9 e :=
  ⟨fun rest hn => hP rest _ (postLoop_done (hn.2 (Nat.le_refl 9))),
   fun h => by simp [kind] at h, fun _ => hP⟩

theorem mot_plain {k : Nat} {e : Expr} (hk : kind k ≠ .leftAssoc) (hk9 : k ≠ 9)
    (h : ∀ rest, NoCont k rest → Conv (fun f => parse f k (fmt e ++ rest)) (e, rest)) : Mot k e :=
  ⟨h, fun hh => absurd hh hk, fun hh => absurd hh hk9⟩

/-- Passing from level `k+1` down to level `k` (the `up` rule). -/
theorem mot_up {k : Nat} {e : Expr} (hk10 : k < 10) (hw : WL (k + 1) e) (ih : Mot (k + 1) e) : Mot k e := by
  have hcases : k = 0 ∨ k = 1 ∨ k = 2 ∨ k = 3 ∨ k = 4 ∨ k = 5 ∨ k = 6 ∨ k = 7 ∨ k = 8 ∨ k = 9 := by omega
  have left : ∀ {k}, kind k = .leftAssoc → k ≠ 9 → WL (k + 1) e → Mot (k + 1) e → Mot k e := by
    intro k hk hk9 _ ih
    exact mot_of_loop hk hk9 (fun rest R hn hl => step_left hk (ih.1 rest hn) hl)
  have pre : ∀ {k}, kind k = .prefix → k ≠ 9 → WL (k + 1) e → Mot (k + 1) e → Mot k e := by
    intro k hk hk9 hw ih
    exact mot_plain (by rw [hk]; simp) hk9
      (fun rest hn => step_pre_none hk (matchPre_none_of_level hw hk rest) (ih.1 rest (hn.mono (by omega))))
  rcases hcases with rfl | rfl | rfl | rfl | rfl | rfl | rfl | rfl | rfl | rfl
  · exact left rfl (by omega) hw ih
  · exact left rfl (by omega) hw ih
  · exact pre rfl (by omega) hw ih
  · exact left rfl (by omega) hw ih
  · exact mot_plain (by simp [kind]) (by omega)
      (fun rest hn => step_non_none rfl (ih.1 rest (hn.mono (by omega))) (hn.1 4 (Nat.le_refl 4)))
  · exact left rfl (by omega) hw ih
  · exact left rfl (by omega) hw ih
  · exact mot_plain (by simp [kind]) (by omega)
      (fun rest hn => step_right_none rfl (ih.1 rest (hn.mono (by omega))) (hn.1 7 (Nat.le_refl 7)))
  · exact pre rfl (by omega) hw ih
  · exact mot_of_post (fun rest R hp => step_post rfl (ih.1 rest (noCont_ten rest)) hp)

theorem mot_all {k : Nat} {e : Expr} (h : WL k e) : Mot k e := by
  induction h with
  | up hk hw ih => exact mot_up hk hw ih
  | atom a =>
    exact mot_plain (by simp [kind]) (by omega) (fun rest _ => by simpa [fmt] using prim_atom (k := 10) rfl a rest)
  | @paren e _ ih =>
    refine mot_plain (by simp [kind]) (by omega) (fun rest _ => ?_)
    have := ih.1 (.rparen :: rest) (noCont_rparen rest)
    have := prim_paren (k := 10) rfl this
    simpa [fmt] using this
  | @pre op e _ ih =>
    have hk : kind (popLevel op) = .prefix := by cases op <;> rfl
    have hk9 : popLevel op ≠ 9 := by cases op <;> simp [popLevel]
    refine mot_plain (by rw [hk]; simp) hk9 (fun rest hn => ?_)
    have := step_pre_some hk (matchPre_pop op (fmt e ++ rest)) (ih.1 rest hn)
    simpa [fmt] using this
  | @binLeft op l r hk _ _ ihl ihr =>
    have hk9 : bopLevel op ≠ 9 := by cases op <;> simp [bopLevel]
    refine mot_of_loop hk hk9 (fun rest R hn hl => ?_)
    have h1 := step_loop_some (left := l) (matchBin_bop op (fmt r ++ rest)) (ihr.1 rest hn) hl
    have h2 := ihl.2.1 hk (bopToks op ++ (fmt r ++ rest)) R (noCont_bop op _) h1
    simpa [fmt, List.append_assoc] using h2
  | @binRight op l r hk _ _ ihl ihr =>
    have hk9 : bopLevel op ≠ 9 := by cases op <;> simp [bopLevel]
    refine mot_plain (by rw [hk]; simp) hk9 (fun rest hn => ?_)
    have := step_right_some hk (ihl.1 (bopToks op ++ (fmt r ++ rest)) (noCont_bop op _))
      (matchBin_bop op (fmt r ++ rest)) (ihr.1 rest hn)
    simpa [fmt, List.append_assoc] using this
  | @binNon op l r hk _ _ ihl ihr =>
    have hk9 : bopLevel op ≠ 9 := by cases op <;> simp [bopLevel]
    refine mot_plain (by rw [hk]; simp) hk9 (fun rest hn => ?_)
    have := step_non_some hk (ihl.1 (bopToks op ++ (fmt r ++ rest)) (noCont_bop op _))
      (matchBin_bop op (fmt r ++ rest)) (ihr.1 rest (hn.mono (by omega)))
    simpa [fmt, List.append_assoc] using this
  | @try_ e _ ih =>
    refine mot_of_post (fun rest R hp => ?_)
    have := ih.2.2 rfl (.quest :: rest) R (postLoop_quest hp)
    simpa [fmt, List.append_assoc] using this
  | @index e i _ _ ihe ihi =>
    refine mot_of_post (fun rest R hp => ?_)
    have h1 := postLoop_index (e := e) (ihi.1 (.rbrack :: rest) (noCont_rbrack rest)) hp
    have := ihe.2.2 rfl (.lbrack :: (fmt i ++ .rbrack :: rest)) R h1
    simpa [fmt, List.append_assoc] using this

/-- **Round trip**: parsing the formatter's output of any producible expression gives back the same
tree, with nothing left over — for every sufficiently large fuel (the parser terminates). -/
theorem roundtrip (e : Expr) (h : WL 0 e) : ∃ f0, ∀ f, f0 ≤ f → parse f 0 (fmt e) = some (e, []) := by
  have := (mot_all h).1 [] noCont_nil
  simpa [Conv] using this

/-- The same inside any bracketed context: what follows (`)`, `]`) is left untouched. -/
theorem roundtrip_in_parens (e : Expr) (h : WL 0 e) (rest : List Tok) :
    ∃ f0, ∀ f, f0 ≤ f → parse f 0 (fmt e ++ .rparen :: rest) = some (e, .rparen :: rest) :=
  (mot_all h).1 _ (noCont_rparen rest)

/-- Consequently the formatter is injective on producible trees: two different expressions are never
printed as the same token sequence (no meaning is lost). -/
theorem fmt_injective (e₁ e₂ : Expr) (h₁ : WL 0 e₁) (h₂ : WL 0 e₂) (h : fmt e₁ = fmt e₂) : e₁ = e₂ := by
  obtain ⟨f1, r1⟩ := roundtrip e₁ h₁
  obtain ⟨f2, r2⟩ := roundtrip e₂ h₂
  have a := r1 (max f1 f2) (by omega)
  have b := r2 (max f1 f2) (by omega)
  rw [h] at a
  rw [a] at b
  exact (Prod.mk.inj (Option.some.inj b)).1

/-! ### Concrete instances -/

/-- `(1 + 2) * (3 - 4)`: producible, and it round-trips with its parentheses. -/
example : parse 40 0 (fmt (.bin .mul (.paren (.bin .add (.atom 1) (.atom 2))) (.paren (.bin .sub (.atom 3) (.atom 4)))))
    = some (.bin .mul (.paren (.bin .add (.atom 1) (.atom 2))) (.paren (.bin .sub (.atom 3) (.atom 4))), []) := by decide

/-- Without the `Paren` nodes the tree `(1 + 2) * 3` is *not* producible and would print as `1 + 2 * 3`,
which parses differently: the hypothesis `WL` is what the parser guarantees, not a convenience. -/
example : parse 40 0 (fmt (.bin .mul (.bin .add (.atom 1) (.atom 2)) (.atom 3)))
    = some (.bin .add (.atom 1) (.bin .mul (.atom 2) (.atom 3)), []) := by decide

/-- `-2 ** 2` is `(-2) ** 2` in Incan (unary binds tighter than power) and `a not in b` uses two tokens. -/
example : parse 40 0 [.minus, .atom 2, .starstar, .atom 2] = some (.bin .pow (.pre .neg (.atom 2)) (.atom 2), []) := by decide
example : parse 40 0 [.atom 1, .kwNot, .kwIn, .atom 2, .kwAnd, .kwNot, .atom 3]
    = some (.bin .and_ (.bin .notIn (.atom 1) (.atom 2)) (.pre .not_ (.atom 3)), []) := by decide

end Incan.Ladder

/-! ### Literals: what the formatter writes is read back as the same value -/
namespace Incan.Literals

theorem scanStr_nil : scanStr [] = none := by rw [scanStr.eq_def]

theorem scanStr_cons (c : Char) (rest : List Char) : scanStr (c :: rest) =
    (if c = '"' then some ([], rest)
    else if c = '\n' then none
    else if c = '\\' then
      match rest with
      | [] => none
      | e :: rest' =>
        if e = 'n' then pushC '\n' (scanStr rest')
        else if e = 't' then pushC '\t' (scanStr rest')
        else if e = 'r' then pushC '\r' (scanStr rest')
        else if e = '\\' then pushC '\\' (scanStr rest')
        else if e = '"' then pushC '"' (scanStr rest')
        else pushC '\\' (pushC e (scanStr rest'))
    else pushC c (scanStr rest)) := by
  conv => lhs; rw [scanStr.eq_def]
  rfl

theorem scanBytes_cons (c : Nat) (rest : List Nat) : scanBytes (c :: rest) =
    (if c = 34 then some ([], rest)
    else if c = 10 then none
    else if c = 92 then
      match rest with
      | [] => none
      | e :: rest' =>
        if e = 110 then pushB 10 (scanBytes rest')
        else if e = 116 then pushB 9 (scanBytes rest')
        else if e = 114 then pushB 13 (scanBytes rest')
        else if e = 92 then pushB 92 (scanBytes rest')
        else if e = 48 then pushB 0 (scanBytes rest')
        else if e = 120 then
          match rest' with
          | h :: l :: rest'' =>
            (match hexPair h l with
            | some b => pushB b (scanBytes rest'')
            | none => none)
          | _ => none
        else if e = 34 then pushB 34 (scanBytes rest')
        else pushB 92 (pushB (e % 256) (scanBytes rest'))
    else if c < 128 then pushB c (scanBytes rest)
    else none) := by
  conv => lhs; rw [scanBytes.eq_def]
  rfl

theorem scanStr_esc (c : Char) (rest : List Char) : scanStr (escChar c ++ rest) = pushC c (scanStr rest) := by
  unfold escChar
  by_cases h1 : c = '\n'
  · subst h1; simp [scanStr_cons]
  by_cases h2 : c = '\r'
  · subst h2; simp [scanStr_cons]
  by_cases h3 : c = '\t'
  · subst h3; simp [scanStr_cons]
  by_cases h4 : c = '\\'
  · subst h4; simp [scanStr_cons]
  by_cases h5 : c = '"'
  · subst h5; simp [scanStr_cons]
  simp only [h1, h2, h3, h4, h5, if_false, List.cons_append, List.nil_append]
  rw [scanStr_cons]
  simp [h1, h4, h5]

/-- MAIN (string literals): for every string value `s` and every following text, the lexer reads the formatter's
`"<escaped s>"` back as exactly `s` and continues right after the closing quote. -/
theorem string_literal_roundtrip (s tail : List Char) :
    scanStr (fmtStr s ++ '"' :: tail) = some (s, tail) := by
  induction s with
  | nil => simp [fmtStr, scanStr_cons]
  | cons c cs ih =>
    have : fmtStr (c :: cs) ++ '"' :: tail = escChar c ++ (fmtStr cs ++ '"' :: tail) := by
      simp [fmtStr, List.flatMap_cons]
    rw [this, scanStr_esc, ih]
    rfl

/-- The first character the formatter writes for a non-empty value is not a bare quote. -/
theorem escChar_head (c : Char) : ∃ x xs, escChar c = x :: xs ∧ x ≠ '"' := by
  unfold escChar
  by_cases h1 : c = '\n'
  · exact ⟨'\\', ['n'], by simp [h1], by decide⟩
  by_cases h2 : c = '\r'
  · exact ⟨'\\', ['r'], by simp [h1, h2], by decide⟩
  by_cases h3 : c = '\t'
  · exact ⟨'\\', ['t'], by simp [h1, h2, h3], by decide⟩
  by_cases h4 : c = '\\'
  · exact ⟨'\\', ['\\'], by simp [h1, h2, h3, h4], by decide⟩
  by_cases h5 : c = '"'
  · exact ⟨'\\', ['"'], by simp [h1, h2, h3, h4, h5], by decide⟩
  exact ⟨c, [], by simp [h1, h2, h3, h4, h5], h5⟩

/-- The written literal is never mistaken for a triple-quoted one, unless the value is empty and the next
character of the line is another quote (the formatter never writes a quote right after a literal). -/
theorem string_literal_lexes (s tail : List Char) (ht : s = [] → tail.head? ≠ some '"') :
    lexStr ('"' :: (fmtStr s ++ '"' :: tail)) = some (s, tail) := by
  have hrt := string_literal_roundtrip s tail
  cases s with
  | nil =>
    cases tail with
    | nil => simp [lexStr, fmtStr, scanStr_cons]
    | cons t ts =>
      have hne : t ≠ '"' := by
        intro h; exact ht rfl (by simp [h])
      simp only [fmtStr, List.flatMap_nil, List.nil_append]
      unfold lexStr
      split
      · rename_i heq
        simp only [List.cons.injEq, true_and] at heq
        exact absurd heq.1 hne
      · rename_i heq
        simp only [List.cons.injEq, true_and] at heq
        subst heq
        simp [scanStr_cons]
      · rename_i h2
        exact absurd rfl (h2 _)
  | cons c cs =>
    obtain ⟨x, xs, hx, hxq⟩ := escChar_head c
    have hshape : fmtStr (c :: cs) ++ '"' :: tail = x :: (xs ++ (fmtStr cs ++ '"' :: tail)) := by
      simp [fmtStr, List.flatMap_cons, hx]
    rw [hshape] at hrt ⊢
    unfold lexStr
    split
    · rename_i heq
      simp only [List.cons.injEq, true_and] at heq
      exact absurd heq.1 hxq
    · rename_i heq
      simp only [List.cons.injEq, true_and] at heq
      subst heq
      exact hrt
    · rename_i h2
      exact absurd rfl (h2 _)

theorem hexVal_hexDigit (d : Nat) (h : d < 16) : hexVal (hexDigit d) = some d := by
  unfold hexVal hexDigit
  by_cases h10 : d < 10
  · simp only [h10, if_true]
    rw [if_pos (by omega)]
    congr 1; omega
  · simp only [h10, if_false]
    rw [if_neg (by omega), if_pos (by omega)]
    congr 1; omega

theorem scanBytes_esc (b : Nat) (hb : b < 256) (rest : List Nat) :
    scanBytes (escByte b ++ rest) = pushB b (scanBytes rest) := by
  unfold escByte
  by_cases h1 : b = 34 ∨ b = 92
  · rcases h1 with h | h <;> subst h <;> simp [scanBytes_cons]
  · have h34 : b ≠ 34 := fun h => h1 (Or.inl h)
    have h92 : b ≠ 92 := fun h => h1 (Or.inr h)
    simp only [h1, if_false]
    by_cases h2 : 32 ≤ b ∧ b < 127
    · simp only [h2, and_self, if_true, List.cons_append, List.nil_append]
      rw [scanBytes_cons]
      have h10 : b ≠ 10 := by omega
      have h128 : b < 128 := by omega
      simp [h34, h92, h10, h128]
    · simp only [h2, if_false, List.cons_append, List.nil_append]
      rw [scanBytes_cons]
      have hd1 : b / 16 < 16 := by omega
      have hd2 : b % 16 < 16 := by omega
      have hne : hexDigit (b / 16) ≠ 43 := by unfold hexDigit; split <;> omega
      simp only [show (92 : Nat) ≠ 34 by decide, show (92 : Nat) ≠ 10 by decide, if_false, if_true,
        show (120 : Nat) ≠ 110 by decide, show (120 : Nat) ≠ 116 by decide, show (120 : Nat) ≠ 114 by decide,
        show (120 : Nat) ≠ 92 by decide, show (120 : Nat) ≠ 48 by decide]
      simp only [hexPair, hne, if_false, hexVal_hexDigit _ hd1, hexVal_hexDigit _ hd2]
      have : 16 * (b / 16) + b % 16 = b := by omega
      rw [this]

/-- MAIN (bytes literals): for every byte string, the lexer reads the formatter's `b"<escaped>"` back as exactly
those bytes — printable ASCII as itself (the apostrophe included), quote and backslash escaped, the rest `\\xNN`. -/
theorem bytes_literal_roundtrip (bs tail : List Nat) (hb : ∀ b ∈ bs, b < 256) :
    scanBytes (fmtBytes bs ++ 34 :: tail) = some (bs, tail) := by
  induction bs with
  | nil => simp [fmtBytes, scanBytes_cons]
  | cons b rest ih =>
    have : fmtBytes (b :: rest) ++ 34 :: tail = escByte b ++ (fmtBytes rest ++ 34 :: tail) := by
      simp [fmtBytes, List.flatMap_cons]
    rw [this, scanBytes_esc b (hb b (by simp)), ih (fun x hx => hb x (by simp [hx]))]
    rfl

/-- What `std::ascii::escape_default` would add (a backslash before the apostrophe) is not read back: the lexer
keeps both characters. -/
theorem apostrophe_must_stay_bare : scanBytes [92, 39, 34] = some ([92, 39], []) := by
  simp [scanBytes_cons, pushB]

example : fmtBytes [105, 116, 39, 115, 0, 255, 34] = [105, 116, 39, 115, 92, 120, 48, 48, 92, 120, 102, 102, 92, 34] := by decide
example : scanStr (fmtStr ['a', '"', '\\', '\n', 'é'] ++ ['"', '+']) = some (['a', '"', '\\', '\n', 'é'], ['+']) :=
  string_literal_roundtrip _ _

end Incan.Literals
