import IncanModel.Kernel.Seq
namespace Incan.Seq
end Incan.Seq
