import IncanModel.Lemmas.Seq
/-
C05 — Indexing, slicing and range follow Python for every argument.

Reference semantics (unbounded integers): `pyIndices` is CPython's slice arithmetic
(`PySlice_AdjustIndices` + "i, i+k, i+2k, … until the bound is reached"), `pyRange` is Python's `range`.
The theorems hold for **all** `Int64` start/end/step values and all lists shorter than 2^63.
-/
namespace Incan.Seq
open Incan.Num (pos_iff neg_iff eq_zero_iff)

/-- Python: the indices selected by `xs[start:stop:step]` on a sequence of length `len`. -/
def pyIndices (len : Nat) (start stop : Option Int) (step : Int) : List Int :=
  let L : Int := len
  if step > 0 then
    let i := adjIdx L step start 0
    let j := adjIdx L step stop L
    upIdx i j step (j - i).toNat
  else
    let i := adjIdx L step start (L - 1)
    let j := adjIdx L step stop (-1)
    downIdx i j step (i - j).toNat

/-- Python: `xs[start:stop:step]`. -/
def pySlice (xs : List α) (start stop : Option Int) (step : Int) : List α :=
  (pyIndices xs.length start stop step).filterMap (getInt xs)

/-- Python: `list(range(a, b, c))`. -/
def pyRange (a b c : Int) : List Int :=
  if c > 0 then upIdx a b c (b - a).toNat else downIdx a b c (a - b).toNat

/-- Every selected index is a valid position: no element is skipped and none is out of range. -/
theorem pyIndices_in_range (len : Nat) (start stop : Option Int) (step : Int) (hstep : step ≠ 0)
    (k : Int) (hk : k ∈ pyIndices len start stop step) : 0 ≤ k ∧ k < len := by
  unfold pyIndices at hk
  simp only at hk
  by_cases hs : step > 0
  · rw [if_pos hs] at hk
    have h1 := adjIdx_range_up len step (by omega) hs start 0 (by omega)
    have h2 := adjIdx_range_up len step (by omega) hs stop len (by omega)
    have := upIdx_mem _ _ _ hs _ k hk
    omega
  · rw [if_neg hs] at hk
    have h1 := adjIdx_range_down len step (by omega) hs start (len - 1) (by omega)
    have h2 := adjIdx_range_down len step (by omega) hs stop (-1) (by omega)
    have := downIdx_mem _ _ _ (by omega) _ k hk
    omega

/-- `list_slice` returns exactly Python's slice, for all i64 start/end/step (including MIN/MAX). -/
theorem listSlice_eq_python (xs : List α) (hlen : xs.length < 2^63) (start stop step : Option Int64)
    (hstep : step.getD 1 ≠ 0) :
    listSlice xs start stop step =
      .ok (pySlice xs (start.map Int64.toInt) (stop.map Int64.toInt) (step.getD 1).toInt) := by
  have hL := lenI64_toInt xs hlen
  have hl0 : 0 ≤ (lenI64 xs).toInt := by omega
  unfold listSlice
  simp only [hstep, if_false]
  have hb1 := startBound_toInt (lenI64 xs) (step.getD 1) hl0 start
  have hb2 := endBound_toInt (lenI64 xs) (step.getD 1) hl0 stop
  rw [sliceBounds_eq]
  generalize startBound (lenI64 xs) start (step.getD 1) = s at hb1
  generalize endBound (lenI64 xs) stop (step.getD 1) = e at hb2
  simp only
  rw [hL] at hb1 hb2
  unfold pySlice pyIndices
  simp only
  by_cases hs : step.getD 1 > 0
  · have hs' := (pos_iff _).1 hs
    rw [if_pos hs, if_pos hs']
    rw [if_pos hs'] at hb1 hb2
    rw [loopUp_eq xs e _ hs' _ s s.toInt (Or.inl rfl), hb1, hb2]
    congr 2
    have h1 := adjIdx_range_up xs.length (step.getD 1).toInt (by omega) hs' (start.map Int64.toInt) 0 (by omega)
    have h2 := adjIdx_range_up xs.length (step.getD 1).toInt (by omega) hs' (stop.map Int64.toInt) xs.length (by omega)
    apply upIdx_fuel _ _ _ hs' <;> omega
  · have hs' : ¬ (step.getD 1).toInt > 0 := fun h => hs ((pos_iff _).2 h)
    have hneg : (step.getD 1).toInt < 0 := by
      have : (step.getD 1).toInt ≠ 0 := fun h => hstep ((eq_zero_iff _).2 h)
      omega
    rw [if_neg hs, if_neg hs']
    rw [if_neg hs'] at hb1 hb2
    rw [loopDown_eq xs e _ hneg _ s s.toInt (Or.inl rfl), hb1, hb2]
    congr 2
    have h1 := adjIdx_range_down xs.length (step.getD 1).toInt (by omega) hs' (start.map Int64.toInt) (xs.length - 1) (by omega)
    have h2 := adjIdx_range_down xs.length (step.getD 1).toInt (by omega) hs' (stop.map Int64.toInt) (-1) (by omega)
    apply downIdx_fuel _ _ _ hneg <;> omega

/-- The two copies of the slice code (strings in `incan_core`, lists in `incan_stdlib`) agree. -/
theorem strSlice_eq_listSlice (s : List Char) (start stop step : Option Int64) :
    strSlice s start stop step = listSlice s start stop step := rfl

theorem strSlice_eq_python (s : List Char) (hlen : s.length < 2^63) (start stop step : Option Int64)
    (hstep : step.getD 1 ≠ 0) :
    strSlice s start stop step =
      .ok (pySlice s (start.map Int64.toInt) (stop.map Int64.toInt) (step.getD 1).toInt) := by
  rw [strSlice_eq_listSlice]; exact listSlice_eq_python s hlen start stop step hstep

/-- A zero step is always the documented `ValueError`, never anything else. -/
theorem slice_step_zero (xs : List α) (start stop : Option Int64) :
    listSlice xs start stop (some 0) = .error .sliceStepZero ∧
    Err.sliceStepZero.message = "ValueError: slice step cannot be zero" := by
  constructor
  · simp [listSlice]
  · rfl

/-- `range(a, b, c)` yields exactly Python's `range(a, b, c)` and the iterator terminates after at
most `|b - a|` items — for **all** i64 triples with `c ≠ 0` (no overflow hypothesis). -/
theorem range_eq_python (a b c : Int64) (hc : c ≠ 0) (fuel : Nat)
    (hfuel : (if c > 0 then (b.toInt - a.toInt).toNat else (a.toInt - b.toInt).toNat) ≤ fuel) :
    ∃ r, range a b c = .ok r ∧
      (r.collect fuel).1.map Int64.toInt = pyRange a.toInt b.toInt c.toInt ∧
      (r.collect fuel).2 = true := by
  refine ⟨{ cur := a, stop := b, step := c }, by simp [range, hc], ?_⟩
  unfold pyRange
  by_cases hs : c > 0
  · have hs' := (pos_iff c).1 hs
    rw [if_pos hs] at hfuel
    rw [if_pos hs']
    have := collect_up b c hs fuel a a.toInt (Or.inl rfl)
    refine ⟨?_, this.2 hfuel⟩
    rw [this.1]
    exact upIdx_fuel _ _ _ hs' _ _ hfuel (Nat.le_refl _)
  · have hs' : ¬ c.toInt > 0 := fun h => hs ((pos_iff c).2 h)
    have hneg : c.toInt < 0 := by
      have : c.toInt ≠ 0 := fun h => hc ((eq_zero_iff c).2 h)
      omega
    rw [if_neg hs] at hfuel
    rw [if_neg hs']
    have := collect_down b c hs hc fuel a a.toInt (Or.inl rfl)
    refine ⟨?_, this.2 hfuel⟩
    rw [this.1]
    exact downIdx_fuel _ _ _ hneg _ _ hfuel (Nat.le_refl _)

theorem range_step_zero (a b : Int64) :
    range a b 0 = .error .rangeStepZero ∧
    Err.rangeStepZero.message = "ValueError: range() arg 3 must not be zero" := by
  constructor
  · simp [range]
  · rfl

/-- Python indexing: `xs[i]` with negative indices counted from the end. -/
def pyIndex (xs : List α) (i : Int) : Option α :=
  let j := if i < 0 then i + xs.length else i
  if j < 0 ∨ j ≥ xs.length then none else xs[j.toNat]?

theorem listGet_eq_python (xs : List α) (hlen : xs.length < 2^63) (i : Int64) :
    listGet xs i = match pyIndex xs i.toInt with
      | some v => .ok v
      | none => .error (.listIndexOutOfRange i xs.length) := by
  have hL := lenI64_toInt xs hlen
  have hl0 : 0 ≤ (lenI64 xs).toInt := by omega
  unfold listGet pyIndex
  simp only
  by_cases hi : i < 0
  · have hi' := (neg_iff i).1 hi
    rw [if_pos hi, if_pos hi']
    have hadd := addLen_toInt i (lenI64 xs) hi' hl0
    rw [hL] at hadd
    by_cases hb : i + lenI64 xs < 0 ∨ i + lenI64 xs ≥ lenI64 xs
    · rw [if_pos hb]
      rw [neg_iff, ge_iff, hadd, hL] at hb
      rw [if_pos hb]
    · rw [if_neg hb]
      rw [neg_iff, ge_iff, hadd, hL] at hb
      rw [if_neg hb, hadd]
      cases xs[(i.toInt + ↑xs.length).toNat]? <;> rfl
  · have hi' : ¬ i.toInt < 0 := fun h => hi ((neg_iff i).2 h)
    rw [if_neg hi, if_neg hi']
    by_cases hb : i < 0 ∨ i ≥ lenI64 xs
    · rw [if_pos hb]
      rw [neg_iff, ge_iff, hL] at hb
      rw [if_pos hb]
    · rw [if_neg hb]
      rw [neg_iff, ge_iff, hL] at hb
      rw [if_neg hb]
      cases xs[i.toInt.toNat]? <;> rfl

theorem strIndex_eq_python (s : List Char) (hlen : s.length < 2^63) (i : Int64) :
    strIndex s i = match pyIndex s i.toInt with
      | some v => .ok v
      | none => .error .stringIndexOutOfRange := by
  unfold strIndex normalizeIndex pyIndex
  simp only
  by_cases h0 : s.length = 0
  · have : s = [] := List.eq_nil_of_length_eq_zero h0
    subst this
    simp
    first | done | (split <;> simp <;> omega)
  · have hL : (Int64.ofInt (s.length : Int)).toInt = s.length := toInt_ofInt_of_range _ (by omega)
    have hl0 : 0 ≤ (Int64.ofInt (s.length : Int)).toInt := by omega
    rw [if_neg h0]
    by_cases hi : i < 0
    · have hi' := (neg_iff i).1 hi
      rw [if_pos hi, if_pos hi']
      have hadd := addLen_toInt i _ hi' hl0
      rw [hL] at hadd
      by_cases hb : i + Int64.ofInt ↑s.length < 0 ∨ i + Int64.ofInt ↑s.length ≥ Int64.ofInt ↑s.length
      · rw [if_pos hb]
        rw [neg_iff, ge_iff, hadd, hL] at hb
        rw [if_pos hb]
      · rw [if_neg hb]
        rw [neg_iff, ge_iff, hadd, hL] at hb
        rw [if_neg hb, hadd]
        cases h : s[(i.toInt + ↑s.length).toNat]? <;> simp only [h]
    · have hi' : ¬ i.toInt < 0 := fun h => hi ((neg_iff i).2 h)
      rw [if_neg hi, if_neg hi']
      by_cases hb : i < 0 ∨ i ≥ Int64.ofInt ↑s.length
      · rw [if_pos hb]
        rw [neg_iff, ge_iff, hL] at hb
        rw [if_pos hb]
      · rw [if_neg hb]
        rw [neg_iff, ge_iff, hL] at hb
        rw [if_neg hb]
        cases h : s[i.toInt.toNat]? <;> simp only [h]

/-! Concrete instances (non-vacuity and the overflow witnesses that the `fix:` commit repaired). -/
example : listSlice [0, 1, 2, 3, 4, 5, 6, 7, 8, 9] (some 5) none (some Int64.maxValue) = .ok [5] := by decide
example : listSlice [0, 1, 2, 3, 4] none none (some (-1)) = .ok [4, 3, 2, 1, 0] := by decide
example : listSlice [0, 1, 2, 3, 4] (some (-2)) none (some Int64.maxValue) = .ok [3] := by decide
example : (PyRange.collect 5 { cur := Int64.maxValue - 1, stop := Int64.maxValue, step := 2 })
    = ([Int64.maxValue - 1], true) := by decide
example : strIndex "héllo".toList (-1) = .ok 'o' := by decide

end Incan.Seq
