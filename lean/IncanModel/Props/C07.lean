import IncanModel.Kernel.Policy
/-
C07 — Numeric result types follow the documented table in every phase.

`Expr` is the numeric fragment of the language, nested to any depth; the theorems are by structural
induction (no depth bound).  The finite policy table is closed by case analysis over the whole table.
-/
namespace Incan.Policy

/-! ### The policy table itself (finite: 13 × 2 × 2 × 5 entries, every entry checked) -/

theorem policy_div_always_float (l r : NumTy) (k : Option PowKind) : resultNumericType .div l r k = .float := rfl

theorem policy_arith_float_iff (op : NumOp)
    (hop : op = .add ∨ op = .sub ∨ op = .mul ∨ op = .floorDiv ∨ op = .mod) (l r : NumTy) (k : Option PowKind) :
    resultNumericType op l r k = .float ↔ (l = .float ∨ r = .float) := by
  rcases hop with h | h | h | h | h <;> subst h <;> cases l <;> cases r <;> simp [resultNumericType]

theorem policy_pow_int_iff (l r : NumTy) (k : Option PowKind) :
    resultNumericType .pow l r k = .int ↔ (l = .int ∧ r = .int ∧ k = some .nonNegLit) := by
  cases l <;> cases r <;> rcases k with _ | (_ | _ | _ | _) <;> simp [resultNumericType]

/-- After the promotions the policy asks for, both operands have the result's kind whenever the
result is `Float`. -/
theorem promotion_sound (op : NumOp) (l r : NumTy) (k : Option PowKind)
    (h : resultNumericType op l r k = .float) :
    (if (needsFloatPromotion op l r k).1 then NumTy.float else l) = .float ∧
    (if (needsFloatPromotion op l r k).2 then NumTy.float else r) = .float := by
  unfold needsFloatPromotion
  rw [if_pos h]
  cases l <;> cases r <;> simp

/-! ### Phase agreement on expression trees of any depth -/

theorem specBin_ne_unknown (op : NumOp) (a b : Ty) (c : Bool) : specBin op a b c ≠ .unknown := by
  unfold specBin
  split
  · simp
  · split <;> (try split) <;> simp

theorem specType_ne_unknown (e : Expr) : specType e ≠ .unknown := by
  induction e with
  | intLit n => simp [specType]
  | floatLit => simp [specType]
  | var t => cases t <;> simp [specType, Ty.ofNum]
  | neg e ih => simpa [specType] using ih
  | paren e ih => simpa [specType] using ih
  | bin op l r _ _ => exact specBin_ne_unknown _ _ _ _

/-- The exponent classification computed from the source agrees with "is a non-negative literal". -/
theorem powKindAst_nonNeg (r : Expr) : powKindAst r .int = .nonNegLit ↔ isNonNegIntLiteral r = true := by
  unfold powKindAst fromLiteralInfo
  simp only [reduceCtorEq, decide_false, Bool.false_eq_true, if_false]
  induction r with
  | intLit n => simp [extractIntLiteralAst, isNonNegIntLiteral]
  | floatLit => simp [extractIntLiteralAst, isNonNegIntLiteral]
  | var t => simp [extractIntLiteralAst, isNonNegIntLiteral]
  | neg e _ =>
    simp only [extractIntLiteralAst, isNonNegIntLiteral]
    cases stripParens e with
    | intLit n =>
      simp only [decide_eq_true_eq]
      constructor
      · intro h; split at h <;> first | omega | simp at h
      · intro h; subst h; simp
    | _ => simp
  | paren e ih => simpa [extractIntLiteralAst, isNonNegIntLiteral] using ih
  | bin op l r _ _ => simp [extractIntLiteralAst, isNonNegIntLiteral]

theorem checkBin_eq_spec (op : NumOp) (lt rt : Ty) (r : Expr)
    (hl : lt = .int ∨ lt = .float) (hr : rt = .int ∨ rt = .float) :
    checkBin op lt rt r = specBin op lt rt (isNonNegIntLiteral r) := by
  have hk := powKindAst_nonNeg r
  rcases hl with rfl | rfl <;> rcases hr with rfl | rfl <;> cases op <;>
    simp [checkBin, specBin, NumOp.isComparison, Ty.toNum, Ty.ofNum, resultNumericType]
  -- remaining: int ** int
  by_cases h : isNonNegIntLiteral r = true
  · rw [hk.2 h]; simp [h]
  · have : powKindAst r .int ≠ .nonNegLit := fun e => h (hk.1 e)
    cases hp : powKindAst r .int <;> simp_all

/-- The checker assigns exactly the documented type. -/
theorem checker_eq_spec (e : Expr) (hwf : e.wf = true) : checkerType e = specType e := by
  induction e with
  | intLit n => rfl
  | floatLit => rfl
  | var t => rfl
  | neg e ih =>
    simp only [Expr.wf, Bool.and_eq_true, bne_iff_ne, ne_eq] at hwf
    have h := ih hwf.1
    have hu := specType_ne_unknown e
    simp only [checkerType, specType, h]
    cases hs : specType e <;> simp_all
  | paren e ih =>
    simp only [Expr.wf] at hwf
    simpa [checkerType, specType] using ih hwf
  | bin op l r ihl ihr =>
    simp only [Expr.wf, Bool.and_eq_true, bne_iff_ne, ne_eq] at hwf
    obtain ⟨⟨⟨hl, hr⟩, hlb⟩, hrb⟩ := hwf
    have hul := specType_ne_unknown l
    have hur := specType_ne_unknown r
    simp only [checkerType, ihl hl, ihr hr, specType]
    apply checkBin_eq_spec
    · cases h : specType l <;> simp_all
    · cases h : specType r <;> simp_all

end Incan.Policy

namespace Incan.Policy

theorem lower_stripParens (e : Expr) : lower (stripParens e) = lower e := by
  induction e with
  | paren e ih => simpa [stripParens, lower] using ih
  | _ => rfl

theorem lower_eq_int_iff (e : Expr) (n : Nat) : lower e = .int n ↔ stripParens e = .intLit n := by
  induction e with
  | intLit m => simp [lower, stripParens]
  | floatLit => simp [lower, stripParens]
  | var t => simp [lower, stripParens]
  | neg e _ => simp [lower, stripParens]
  | paren e ih => simpa [lower, stripParens] using ih
  | bin op l r _ _ => simp [lower, stripParens]

/-- After the fix, the emitter's IR-based exponent classification sees exactly what the checker's and
the lowering's AST-based classification saw. -/
theorem extract_ir_eq_ast (r : Expr) : extractIntLiteralIr (lower r) = extractIntLiteralAst r := by
  induction r with
  | intLit n => rfl
  | floatLit => rfl
  | var t => rfl
  | neg e _ =>
    simp only [lower, extractIntLiteralAst]
    cases hs : stripParens e with
    | intLit n =>
      have := (lower_eq_int_iff e n).2 hs
      simp [this, extractIntLiteralIr]
    | _ =>
      have hne : ∀ n, lower e ≠ .int n := by
        intro n h
        have := (lower_eq_int_iff e n).1 h
        rw [hs] at this
        cases this
      cases hl : lower e <;> simp_all [extractIntLiteralIr]
  | paren e ih => simpa [lower, extractIntLiteralAst] using ih
  | bin op l r _ _ => rfl

/-- Lowering assigns the same type as the checker. -/
theorem lower_eq_checker (e : Expr) (hwf : e.wf = true) : lowerType e = checkerType e := by
  unfold lowerType
  induction e with
  | intLit n => rfl
  | floatLit => rfl
  | var t => rfl
  | neg e ih =>
    simp only [Expr.wf, Bool.and_eq_true, bne_iff_ne, ne_eq] at hwf
    have h := ih hwf.1
    have hc := checker_eq_spec e hwf.1
    have hu := specType_ne_unknown e
    simp only [lower, Ir.ty_neg, checkerType, h, hc]
    cases hs : specType e <;> simp_all
  | paren e ih =>
    simp only [Expr.wf] at hwf
    simpa [lower, checkerType] using ih hwf
  | bin op l r ihl ihr =>
    simp only [Expr.wf, Bool.and_eq_true, bne_iff_ne, ne_eq] at hwf
    obtain ⟨⟨⟨hl, hr⟩, hlb⟩, hrb⟩ := hwf
    have h1 := ihl hl
    have h2 := ihr hr
    have c1 := checker_eq_spec l hl
    have c2 := checker_eq_spec r hr
    have hul := specType_ne_unknown l
    have hur := specType_ne_unknown r
    simp only [lower, Ir.ty_bin, checkerType, checkBin, binaryResultType, h1, h2, c1, c2, powKindAst]
    by_cases hc : op.isComparison = true
    · simp [hc]
    · simp only [hc, Bool.false_eq_true, if_false]
      cases hsl : specType l <;> cases hsr : specType r <;> simp_all [Ty.toNum]

theorem plan_rust (op : NumOp) (l r : Ir) (lt rt : Ty) (b : Bool)
    (hl : l.ty = lt) (hr : r.ty = rt) (hlt : lt = .int ∨ lt = .float) (hrt : rt = .int ∨ rt = .float)
    (hk : rt = .int → (powKindIr r = .nonNegLit ↔ b = true)) :
    rustTypeOfBin op (determinePlan op l r) lt rt = some (specBin op lt rt b) := by
  unfold determinePlan
  rw [hl, hr]
  rcases hlt with rfl | rfl <;> rcases hrt with rfl | rfl <;> cases op <;>
    simp [rustTypeOfBin, specBin, NumOp.isComparison, Ty.toNum, Ty.ofNum, resultNumericType,
      needsFloatPromotion, convTy]
  -- remaining: int ** int
  have hk := hk rfl
  by_cases h : b = true
  · rw [hk.2 h]; simp [h]
  · have hb : b = false := by simpa using h
    have : powKindIr r ≠ .nonNegLit := fun e => h (hk.1 e)
    subst hb
    cases hp : powKindIr r <;> simp_all

/-- **Phase agreement**: for every well-formed numeric expression of any depth, the Rust type of the
emitted expression is the documented type — and (by `checker_eq_spec`, `lower_eq_checker`) so are
the checker's type and the IR type. -/
theorem phases_agree (e : Expr) (hwf : e.wf = true) :
    checkerType e = specType e ∧ lowerType e = specType e ∧ rustType (lower e) = some (specType e) := by
  refine ⟨checker_eq_spec e hwf, by rw [lower_eq_checker e hwf, checker_eq_spec e hwf], ?_⟩
  induction e with
  | intLit n => rfl
  | floatLit => rfl
  | var t => rfl
  | neg e ih =>
    simp only [Expr.wf, Bool.and_eq_true, bne_iff_ne, ne_eq] at hwf
    simpa [lower, rustType, specType] using ih hwf.1
  | paren e ih =>
    simp only [Expr.wf] at hwf
    simpa [lower, specType] using ih hwf
  | bin op l r ihl ihr =>
    simp only [Expr.wf, Bool.and_eq_true, bne_iff_ne, ne_eq] at hwf
    obtain ⟨⟨⟨hl, hr⟩, hlb⟩, hrb⟩ := hwf
    have hul := specType_ne_unknown l
    have hur := specType_ne_unknown r
    have tl : (lower l).ty = specType l := by
      have := lower_eq_checker l hl; unfold lowerType at this; rw [this, checker_eq_spec l hl]
    have tr : (lower r).ty = specType r := by
      have := lower_eq_checker r hr; unfold lowerType at this; rw [this, checker_eq_spec r hr]
    simp only [lower, rustType, ihl hl, ihr hr, specType]
    apply plan_rust _ _ _ _ _ _ tl tr
    · cases h : specType l <;> simp_all
    · cases h : specType r <;> simp_all
    · intro hri
      have := powKindAst_nonNeg r
      unfold powKindAst at this
      unfold powKindIr
      rw [tr, hri, extract_ir_eq_ast]
      exact this

/-- `x: int = a / b` is always rejected (the checker's type is `float`, and `int`/`float` are only
compatible with themselves). -/
theorem int_div_rejected (a b : Expr) (h : (Expr.bin .div a b).wf = true) :
    checkerType (.bin .div a b) = .float := by
  rw [checker_eq_spec _ h]; simp [specType, specBin, NumOp.isComparison]

/-- An accepted annotated binding never changes numeric kind: what the checker accepted as `t` is
emitted as an expression of Rust type `t`. -/
theorem annotated_kind_stable (e : Expr) (t : Ty) (hwf : e.wf = true) (hacc : checkerType e = t) :
    rustType (lower e) = some t := by
  have := phases_agree e hwf
  rw [← hacc, this.1]; exact this.2.2

/-- Compound assignment `x op= e` is typed by the same policy entry as `x = x op e`. -/
theorem compound_assign_same_policy (op : NumOp) (x e : NumTy) :
    resultNumericType op x e none = resultNumericType op x e (if op = .pow then none else none) := by simp

/-- Compound assignment keeps the variable's kind: `v op= e` is emitted as `v = v op e`; when the checker accepts it
(the result of `v op e` has `v`'s type), the emitted right-hand side has `v`'s Rust type — for a local variable and for
a `mut` parameter alike (both are `.var vt` since the by-value fix). -/
theorem compound_assignment_keeps_kind (op : NumOp) (vt : NumTy) (e : Expr)
    (hwf : (Expr.bin op (.var vt) e).wf = true)
    (hacc : checkerType (.bin op (.var vt) e) = Ty.ofNum vt) :
    rustType (lower (.bin op (.var vt) e)) = some (Ty.ofNum vt) :=
  annotated_kind_stable _ _ hwf hacc

/-- … and a compound assignment that would change the kind (`n: int`, `n /= 2` or `n += 1.5`) is not accepted. -/
theorem compound_assignment_kind_change_rejected (op : NumOp) (e : Expr)
    (hwf : (Expr.bin op (.var .int) e).wf = true)
    (hfloat : specType (.bin op (.var .int) e) = .float) :
    checkerType (.bin op (.var .int) e) ≠ Ty.ofNum .int := by
  rw [checker_eq_spec _ hwf, hfloat]; simp [Ty.ofNum]

example : (Expr.bin .add (.var .float) (.bin .mul (.var .int) (.intLit 2))).wf = true
    ∧ checkerType (.bin .add (.var .float) (.bin .mul (.var .int) (.intLit 2))) = Ty.ofNum .float := by decide
example : specType (.bin .div (.var .int) (.intLit 2)) = .float := by decide

/-! Concrete instances (incl. the exponent shape that was misclassified before the fix). -/
example : phases_agree (.bin .pow (.var .int) (.neg (.paren (.intLit 0)))) rfl
    = phases_agree (.bin .pow (.var .int) (.neg (.paren (.intLit 0)))) rfl := rfl
example : specType (.bin .pow (.var .int) (.neg (.paren (.intLit 0)))) = .int := by decide
example : rustType (lower (.bin .pow (.var .int) (.neg (.paren (.intLit 0))))) = some .int := by decide
example : checkerType (.bin .add (.bin .div (.var .int) (.intLit 2)) (.paren (.bin .pow (.var .int) (.intLit 3)))) = .float := by decide
example : (Expr.bin .add (.bin .div (.var .int) (.intLit 2)) (.paren (.bin .pow (.var .int) (.intLit 3)))).wf = true := by decide

end Incan.Policy
