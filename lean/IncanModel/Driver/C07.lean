import IncanModel.Kernel.Policy
import IncanModel.Driver.Util
namespace Incan.Driver
open Incan.Policy

def parseOp : String → Option NumOp
  | "add" => some .add | "sub" => some .sub | "mul" => some .mul | "div" => some .div
  | "fdiv" => some .floorDiv | "mod" => some .mod | "pow" => some .pow
  | "eq" => some .eq | "ne" => some .notEq | "lt" => some .lt | "le" => some .ltEq
  | "gt" => some .gt | "ge" => some .gtEq
  | _ => none

/-- Parser for the compact prefix encoding: `i3`, `f`, `vi`, `vf`, `n(e)`, `p(e)`, `op(l,r)`. -/
def parseExpr : Nat → List Char → Option (Expr × List Char)
  | 0, _ => none
  | fuel + 1, cs =>
    let name := cs.takeWhile (fun c => c.isAlpha)
    let rest := cs.dropWhile (fun c => c.isAlpha)
    match String.ofList name, rest with
    | "i", _ =>
      let ds := rest.takeWhile Char.isDigit
      (String.ofList ds).toNat?.map fun n => (.intLit n, rest.dropWhile Char.isDigit)
    | "f", _ => some (.floatLit, rest)
    | "vi", _ => some (.var .int, rest)
    | "vf", _ => some (.var .float, rest)
    | "n", '(' :: r1 =>
      (match parseExpr fuel r1 with
      | some (e, ')' :: r2) => some (.neg e, r2)
      | _ => none)
    | "p", '(' :: r1 =>
      (match parseExpr fuel r1 with
      | some (e, ')' :: r2) => some (.paren e, r2)
      | _ => none)
    | nm, '(' :: r1 =>
      (match parseOp nm, parseExpr fuel r1 with
      | some op, some (l, ',' :: r2) =>
        (match parseExpr fuel r2 with
        | some (r, ')' :: r3) => some (.bin op l r, r3)
        | _ => none)
      | _, _ => none)
    | _, _ => none

def parseWhole (s : String) : Option Expr :=
  match parseExpr (s.length + 1) s.toList with
  | some (e, []) => some e
  | _ => none

def showTy : Ty → String
  | .int => "int" | .float => "float" | .bool => "bool" | .unknown => "unknown"

def showEmit : EmitKind → String
  | .infix => "infix" | .powInt => "powInt" | .powFloat => "powFloat"
  | .modI64 => "py_mod_i64" | .modF64 => "py_mod_f64" | .modGeneric => "py_mod"
  | .floorDivI64 => "py_floor_div_i64" | .floorDivF64 => "py_floor_div_f64" | .floorDivGeneric => "py_floor_div"
  | .pyDiv => "py_div"

def plansOf : Ir → List String
  | .bin op l r _ =>
    let p := determinePlan op l r
    let c := fun (b : Bool) => if b then "F" else "-"
    s!"{c p.lhsToFloat}{c p.rhsToFloat}:{showTy p.resultTy}:{showEmit p.emit}" :: (plansOf l ++ plansOf r)
  | .neg e _ => plansOf e
  | _ => []

def parseNumTy : String → Option NumTy
  | "int" => some .int | "float" => some .float | _ => none

def showNumTy : NumTy → String | .int => "int" | .float => "float"

def handleC07 : List String → String
  | ["policy", op, l, r, k] =>
    let kind : Option (Option PowKind) := match k with
      | "none" => some none | "nonneg" => some (some .nonNegLit) | "neg" => some (some .negLit)
      | "var" => some (some .variable) | "float" => some (some .float) | _ => none
    (match parseOp op, parseNumTy l, parseNumTy r, kind with
    | some op, some l, some r, some k =>
      let p := needsFloatPromotion op l r k
      s!"{showNumTy (resultNumericType op l r k)} {p.1} {p.2}"
    | _, _, _, _ => "bad-op")
  | ["litinfo", fl, lit] =>
    let l : Option (Option Int) := if lit == "none" then some none else lit.toInt?.map some
    (match fl, l with
    | "true", some l | "false", some l =>
      (match fromLiteralInfo (fl == "true") l with
      | .nonNegLit => "NonNegativeIntLiteral" | .negLit => "NegativeIntLiteral"
      | .variable => "Variable" | .float => "Float")
    | _, _ => "bad-op")
  | ["types", e] =>
    (match parseWhole e with
    | some e =>
      let ir := lower e
      let ps := plansOf ir
      s!"chk={showTy (checkerType e)} ir={showTy ir.ty} plans={if ps.isEmpty then "-" else ";".intercalate ps}"
    | none => "bad-op")
  | ["ctype", e] =>
    -- the const evaluator's type for the same tree (names are consts): the checker's typing, by syntax
    (match parseWhole e with
    | some e => showTy (checkerType e)
    | none => "bad-op")
  | ["bind", pos, annot, e] =>
    (match parseWhole e, annot with
    | some e, "int" | some e, "float" =>
      let t := checkerType e
      -- `let`, `ret` and (since the fix: commit for plain calls) `arg` compare the checker's type with the
      -- annotation / return type / parameter type.
      let _ := pos
      if showTy t == annot || t == .unknown then "accept" else "reject"
    | _, _ => "bad-op")
  | ["compound", op, vt, e] =>
    (match parseOp op, parseNumTy vt, parseWhole e with
    | some op, some vt, some e =>
      (match (checkerType e).toNum with
      | some rt => if resultNumericType op vt rt none = vt then "accept" else "reject"
      | none => if checkerType e == .unknown then "accept" else "reject")
    | _, _, _ => "bad-op")
  | ["cplan", op, vt, _target, e] =>
    -- `v op= e` is lowered to `v = v op e`: the plan of that top node (local variable or `mut` parameter alike)
    (match parseOp op, parseNumTy vt, parseWhole e with
    | some bop, some nvt, some ex =>
      let accepted := match (checkerType ex).toNum with
        | some rt => resultNumericType bop nvt rt none = nvt
        | none => checkerType ex == .unknown
      if !accepted then "reject" else
        (match plansOf (lower (.bin bop (.var nvt) ex)) with
        | p :: _ => "plan=" ++ p
        | [] => "plan=-")
    | _, _, _ => "bad-op")
  | _ => "bad-op"

end Incan.Driver
