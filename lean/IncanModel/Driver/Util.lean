/-
Line-protocol helpers shared by all per-property drivers.
Strings travel as comma-separated hex Unicode scalar values ("" is written as "-").
-/
namespace Incan.Driver

def parseI64 (s : String) : Option Int64 :=
  match s.toInt? with
  | some i => if -9223372036854775808 ≤ i ∧ i ≤ 9223372036854775807 then some (Int64.ofInt i) else none
  | none => none

def hexDigit (c : Char) : Option Nat :=
  if '0' ≤ c ∧ c ≤ '9' then some (c.toNat - '0'.toNat)
  else if 'a' ≤ c ∧ c ≤ 'f' then some (c.toNat - 'a'.toNat + 10)
  else if 'A' ≤ c ∧ c ≤ 'F' then some (c.toNat - 'A'.toNat + 10)
  else none

def parseHex (s : String) : Option Nat :=
  if s.isEmpty then none else
  s.toList.foldl (fun acc c => match acc, hexDigit c with
    | some a, some d => some (a * 16 + d)
    | _, _ => none) (some 0)

def toHex (n : Nat) : String :=
  String.ofList (Nat.toDigits 16 n)

/-- Decode "-" or "61,e9,1f600" into a list of characters. -/
def parseStr (s : String) : Option (List Char) :=
  if s == "-" then some [] else
  (s.splitOn ",").foldr (fun tok acc => match acc, parseHex tok with
    | some cs, some n => if h : n.isValidChar then some (Char.ofNatAux n h :: cs) else none
    | _, _ => none) (some [])

def showStr (cs : List Char) : String :=
  if cs.isEmpty then "-" else ",".intercalate (cs.map fun c => toHex c.toNat)

def parseOptI64 (s : String) : Option (Option Int64) :=
  if s == "none" then some none else (parseI64 s).map some

def parseNat (s : String) : Option Nat := s.toNat?

end Incan.Driver
