import IncanModel.Tool.TestRunner
import IncanModel.Driver.Util
namespace Incan.Driver
open Incan.TestRunner

def parseTest (s : String) : Option Test :=
  match s.splitOn ":" with
  | [name, flags] =>
    (match flags.toList with
    | [a, b, c, d] => some ⟨name, a == '1', b == '1', c == '1', d == '1'⟩
    | _ => none)
  | _ => none

def showVerdict : Verdict → String
  | .passed => "PASSED" | .failed => "FAILED" | .skipped => "SKIPPED" | .xfailed => "XFAIL" | .xpassed => "XPASS"

def handleC16 : List String → String
  | ["run", tests, filter, slow, stop] =>
    let ts := (tests.splitOn ",").foldr (fun t acc => match acc, parseTest t with
      | some l, some x => some (x :: l) | _, _ => none) (some [])
    (match ts with
    | some ts =>
      let f := if filter == "-" then none else some filter
      let (rs, sm) := runTests f (slow == "1") (stop == "1") ts
      if rs.isEmpty then "exit=0 verdicts=- summary=-" else
      let parts := [(sm.passed, "passed"), (sm.failed, "failed"), (sm.skipped, "skipped"), (sm.xfailed, "xfailed"), (sm.xpassed, "xpassed")]
      let summary := "+".intercalate ((parts.filter (·.1 > 0)).map fun p => s!"{p.1}_{p.2}")
      s!"exit={if sm.exitOk then 0 else 1} verdicts={",".intercalate (rs.map fun r => r.1.name ++ "=" ++ showVerdict r.2.1)} summary={summary}"
    | none => "bad-op")
  | _ => "bad-op"

end Incan.Driver
