import IncanModel.Sem.Derive
import IncanModel.Driver.Util
namespace Incan.Driver
open Incan.Derive

mutual
  partial def parseTyP : List String → Option (Ty × List String)
    | tok :: rest =>
      (match tok.front with
      | 'i' => some (.int, rest) | 'b' => some (.bool, rest) | 's' => some (.str, rest) | 'f' => some (.float, rest)
      | 'O' => (parseTyP rest).map fun (t, r) => (.option t, r)
      | 'L' => (parseTyP rest).map fun (t, r) => (.list t, r)
      | 'D' => (parseTyP rest).map fun (t, r) => (.dict t, r)
      | 'S' => (match (tok.drop 1).toString.toNat? with
        | some n => (parseTyFields n rest).map fun (fs, r) => (.struct fs, r)
        | none => none)
      | _ => none)
    | [] => none
  partial def parseTyFields : Nat → List String → Option (List (List Char × Ty) × List String)
    | 0, r => some ([], r)
    | k + 1, nm :: r =>
      (match parseStr (nm.drop 1).toString, parseTyP r with
      | some name, some (t, r') => (parseTyFields k r').map fun (fs, r'') => ((name, t) :: fs, r'')
      | _, _ => none)
    | _, [] => none
end

mutual
  partial def parseValP : List String → Option (Val × List String)
    | tok :: rest =>
      let tl := (tok.drop 1).toString
      (match tok.front with
      | 'i' => tl.toInt?.map fun n => (.int n, rest)
      | 'b' => some (.bool (tl == "T"), rest)
      | 's' => (parseStr tl).map fun s => (.str s, rest)
      | 'f' => (parseHex ((tl.splitOn ":").headD "")).map fun b => (.float b, rest)
      | 'n' => some (.none_, rest)
      | 'o' => (parseValP rest).map fun (v, r) => (.some_ v, r)
      | 'l' => (match tl.toNat? with
        | some n => (parseValItems n rest).map fun (vs, r) => (.list vs, r)
        | none => none)
      | 'd' => (match tl.toNat? with
        | some n => (parseValEntries n rest).map fun (vs, r) => (.dict vs, r)
        | none => none)
      | 'S' => (match tl.toNat? with
        | some n => (parseValEntries n rest).map fun (vs, r) => (.struct vs, r)
        | none => none)
      | _ => none)
    | [] => none
  partial def parseValItems : Nat → List String → Option (List Val × List String)
    | 0, r => some ([], r)
    | k + 1, r => (match parseValP r with
      | some (v, r') => (parseValItems k r').map fun (vs, r'') => (v :: vs, r'')
      | none => none)
  partial def parseValEntries : Nat → List String → Option (List (List Char × Val) × List String)
    | 0, r => some ([], r)
    | k + 1, key :: r => (match parseStr (key.drop 1).toString, parseValP r with
      | some ks, some (v, r') => (parseValEntries k r').map fun (vs, r'') => ((ks, v) :: vs, r'')
      | _, _ => none)
    | _, [] => none
end

def parseTy20 (s : String) : Option Ty :=
  match parseTyP (s.splitOn ";") with | some (t, []) => some t | _ => none
def parseVal20 (s : String) : Option Val :=
  match parseValP (s.splitOn ";") with | some (t, []) => some t | _ => none

/-- Float texts travel with the request (the harness asks serde_json itself): bits ↦ text. -/
def floatTexts (s : String) : List (Nat × String) :=
  (s.splitOn ";").filterMap fun tok =>
    if tok.front == 'f' then
      match ((tok.drop 1).toString.splitOn ":") with
      | [b, t] => (parseHex b).map fun n => (n, t)
      | _ => none
    else none

def hex4 (n : Nat) : String :=
  let d := toHex n
  String.ofList (List.replicate (4 - d.length) '0') ++ d

/-- serde_json's string escaping. -/
def jsonStr (s : List Char) : String :=
  "\"" ++ String.join (s.map fun c =>
    if c == '"' then "\\\"" else if c == '\\' then "\\\\" else if c == '\n' then "\\n" else if c == '\r' then "\\r"
    else if c == '\t' then "\\t" else if c.toNat == 8 then "\\b" else if c.toNat == 12 then "\\f"
    else if c.toNat < 32 then "\\u" ++ hex4 c.toNat else String.singleton c) ++ "\""

partial def renderJ (ft : List (Nat × String)) : J → String
  | .null => "null"
  | .bool b => if b then "true" else "false"
  | .num n => toString n
  | .fnum b => ((ft.find? (·.1 == b)).map (·.2)).getD "?"
  | .str s => jsonStr s
  | .arr xs => "[" ++ ",".intercalate (xs.map (renderJ ft)) ++ "]"
  | .obj kvs => "{" ++ ",".intercalate (kvs.map fun (k, v) => jsonStr k ++ ":" ++ renderJ ft v) ++ "}"

def b2s (b : Bool) : String := if b then "true" else "false"

/-- The field order the model gives the struct of `M` when its fields are declared over a chain of classes
(`chain:2,1,2` = fields per level, root first): `classFields` on the chain's declarations. -/
def chainOrder (fts : List (List Char × Ty)) (chain : String) : Option (List (List Char)) :=
  let sizes := ((chain.drop 6).toString.splitOn ",").filterMap String.toNat?
  let rec cut (fs : Fields) (sz : List Nat) (li : Nat) : List (String × Fields) :=
    match sz with
    | [] => []
    | [n] => [("M", fs.take n)]
    | n :: rest => (s!"B{li}", fs.take n) :: cut (fs.drop n) rest (li + 1)
  let levels := cut fts sizes 0
  let cs : List (Decl Fields) := chainDecls levels none
  (cs.getLast?).map fun c => (classFields cs c).map (·.1)

def reorderFields {α : Type} (order : List (List Char)) (fs : List (List Char × α)) : List (List Char × α) :=
  order.filterMap fun k => (fs.find? (·.1 == k))

def reorderVal (order : Option (List (List Char))) : Val → Val
  | .struct fs => (match order with | some o => .struct (reorderFields o fs) | none => .struct fs)
  | v => v

def handleC20 : List String → String
  | ["json", ty, val, chain] =>
    (match parseTy20 ty, parseVal20 val with
    | some (.struct fts), some v =>
      let o := chainOrder fts chain
      let v := reorderVal o v
      let t := Ty.struct (match o with | some o => reorderFields o fts | none => fts)
      let j := encode v
      let rt := match decode t j with | some w => eqV w v | none => false
      s!"ok {renderJ (floatTexts val) j}\x01{b2s rt}"
    | _, _ => "bad-op")
  | ["cmp", ty, v, w, chain] =>
    (match parseTy20 ty, parseVal20 v, parseVal20 w with
    | some (.struct fts), some v, some w =>
      let o := chainOrder fts chain
      let v := reorderVal o v
      let w := reorderVal o w
      let e := eqV v w
      let c := cmpV v w
      let lt := c == .lt
      let gt := c == .gt
      s!"ok {b2s e} {b2s (!e)} {b2s lt} {b2s (lt || c == .eq)} {b2s gt} {b2s (gt || c == .eq)}"
    | _, _, _ => "bad-op")
  | ["json", ty, val] =>
    (match parseTy20 ty, parseVal20 val with
    | some t, some v =>
      let j := encode v
      let rt := match decode t j with | some w => eqV w v | none => false
      s!"ok {renderJ (floatTexts val) j}\x01{b2s rt}"
    | _, _ => "bad-op")
  | ["cmp", _ty, v, w] =>
    (match parseVal20 v, parseVal20 w with
    | some v, some w =>
      let e := eqV v w
      let c := cmpV v w
      let lt := c == .lt
      let gt := c == .gt
      s!"ok {b2s e} {b2s (!e)} {b2s lt} {b2s (lt || c == .eq)} {b2s gt} {b2s (gt || c == .eq)}"
    | _, _ => "bad-op")
  | ["hash", _ty, v, w] =>
    (match parseVal20 v, parseVal20 w with
    | some v, some w => s!"ok {if eqV v w then 1 else 2} true"
    | _, _ => "bad-op")
  | ["clone", _ty, v] =>
    (match parseVal20 v with
    | some v =>
      -- the clone equals the original; after `a.n = a.n + 1; a.xs.append(99)` the original differs from the clone
      let mutated := match v with
        | .struct ((k, .int n) :: (k2, .list xs) :: rest) => Val.struct ((k, .int (n + 1)) :: (k2, .list (xs ++ [.int 99])) :: rest)
        | other => other
      s!"ok {b2s (eqV v v)} {b2s (eqV v v)} {b2s (eqV mutated v)}"
    | none => "bad-op")
  | ["derives", written] =>
    let ws := if written == "-" then [] else written.splitOn ","
    ",".intercalate (structDerives ws ++ ["FieldInfo", "IncanClass"])
  | _ => "bad-op"

end Incan.Driver
