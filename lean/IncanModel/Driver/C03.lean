import IncanModel.Sem.Checker
import IncanModel.Driver.Util
namespace Incan.Driver
open Incan.Checker

/-- `lookup` over all frames, as the compound-assignment arm of `check_statement` uses it. -/
def compoundVerdict (fs : Frames) (n : String) : String :=
  match lookupInFunction fs n with
  | some b => if b.isMutable then "accepted" else "mutationWithoutMut"
  | none => "other-error"

def handleC03 : List String → String
  | ["base", _file] => "accepted"
  | ["expr", _file, role, _k] => if skipped role then "accepted" else "rejected-located"
  | ["stmt", _file, blockRole, rule, _bi] =>
    if skipped blockRole then "accepted"
    -- nested expressions inside an f-string interpolation keep spans relative to the interpolated text
    else if rule == "unknown-name-in-fstring" then "rejected-elsewhere"
    else "rejected-located"
  | ["scope", d, bd, isMut, kind, _v] =>
    (match d.toNat?, bd.toNat? with
    | some d, some bd =>
      -- frames innermost first: depth d+1 of them; the binding lives in the frame of depth bd
      let frames : Frames := (List.range (d + 1)).reverse.map fun level =>
        if level == bd then [⟨"x", isMut == "1"⟩] else []
      (match kind with
      | "plain" => (match checkAssign frames "x" false with | .accepted => "accepted" | .mutationWithoutMut => "mutationWithoutMut")
      | "let" | "mut" => (match checkAssign frames "x" true with | .accepted => "accepted" | .mutationWithoutMut => "mutationWithoutMut")
      | "method" | "field" | "index" =>
        (match checkMutateThrough frames [] "x" with | .accepted => "accepted" | .mutationWithoutMut => "mutationWithoutMut")
      | _ => compoundVerdict frames "x")
    | _, _ => "bad-op")
  | ["match", variants, isOpt, arms] =>
    let pats := (arms.splitOn ",").map fun a =>
      if a == "w" then Pat.wildcard else if a == "b" then .binding else if a == "n" then .noneLiteral
      else if a.front == 'c' then .ctor (a.drop 1).toString else .other
    (match missingVariants (variants.splitOn ",") (isOpt == "1") pats with
    | [] => "complete"
    | ms => "missing " ++ ",".intercalate ms)
  | ["call", _kind, params, args, _truth] =>
    let plist := (params.splitOn ";").map fun p => p.splitOn ":"
    let ps : List (String × String) := plist.map fun p => match p with
      | n :: t :: _ => (n, t)
      | _ => ("?", "?")
    let defaults : List String := plist.filterMap fun p => match p with
      | [n, _, "d"] => some n
      | _ => none
    let as : List CArg := if args == "-" then [] else (args.splitOn ";").map fun a => match a.splitOn "=" with
      | [n, t] => ⟨some n, t⟩
      | _ => ⟨none, a⟩
    -- `types_compatible` on the generated type names is equality; Box adopts Shape, Sq extends Box
    let ok (a e : String) : Bool := a == e || (e == "Shape" && (a == "Box" || a == "Sq"))
    let flagged := validateArgs ok as ps 0 ++ surplusArgs as ps
    let missing := missingParams as defaults ps (positionalCount as)
    let fl := (List.range as.length).filter (fun i => flagged.contains i)
    if fl.isEmpty && missing.isEmpty then "accepted"
    else s!"flag {if fl.isEmpty then "-" else ",".intercalate (fl.map toString)} missing {if missing.isEmpty then "-" else ",".intercalate missing}"
  | ["defaults", _kind, params, _truth] =>
    let ps : List (String × String × Option String) := (params.splitOn ";").map fun p => match p.splitOn ":" with
      | [n, t, d] => (n, t, if d == "-" then none else some d)
      | _ => ("?", "?", none)
    let errs := defaultErrors (· == ·) ps
    if errs.isEmpty then "accepted" else s!"flag {",".intercalate (errs.map toString)}"
  | ["adopt", _kind, requires, tmethods, fields, ameths, _truth] =>
    let pairs (x : String) : List (String × String) := if x == "-" then [] else (x.splitOn ",").map fun e =>
      match e.splitOn ":" with
      | [a, b] => (a, b)
      | _ => (e, "")
    let tms : List (String × Bool × String) := (tmethods.splitOn ",").map fun e => match e.splitOn ":" with
      | [m, k, sg] => (m, k == "d", sg)
      | _ => (e, true, "")
    let errs := conformance (· == ·) (· == ·) ⟨pairs requires, tms⟩ ⟨pairs fields, pairs ameths⟩
    let tags := errs.map fun e => match e with
      | .missingField f => s!"mf:{f}"
      | .fieldType f => s!"ft:{f}"
      | .missingMethod m => s!"mm:{m}"
      | .methodSig m => s!"ms:{m}"
    if tags.isEmpty then "accepted" else ",".intercalate (tags.toArray.qsort (· < ·)).toList
  | _ => "bad-op"

end Incan.Driver
