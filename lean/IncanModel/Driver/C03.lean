import IncanModel.Sem.Checker
import IncanModel.Driver.Util
namespace Incan.Driver
open Incan.Checker

/-- `lookup` over all frames, as the compound-assignment arm of `check_statement` uses it. -/
def compoundVerdict (fs : Frames) (n : String) : String :=
  match lookupInFunction fs n with
  | some b => if b.isMutable then "accepted" else "mutationWithoutMut"
  | none => "other-error"

def handleC03 : List String → String
  | ["base", _file] => "accepted"
  | ["expr", _file, role, _k] => if skipped role then "accepted" else "rejected-located"
  | ["stmt", _file, blockRole, rule, _bi] =>
    if skipped blockRole then "accepted"
    -- nested expressions inside an f-string interpolation keep spans relative to the interpolated text
    else if rule == "unknown-name-in-fstring" then "rejected-elsewhere"
    else "rejected-located"
  | ["scope", d, bd, isMut, kind, _v] =>
    (match d.toNat?, bd.toNat? with
    | some d, some bd =>
      -- frames innermost first: depth d+1 of them; the binding lives in the frame of depth bd
      let frames : Frames := (List.range (d + 1)).reverse.map fun level =>
        if level == bd then [⟨"x", isMut == "1"⟩] else []
      (match kind with
      | "plain" => (match checkAssign frames "x" false with | .accepted => "accepted" | .mutationWithoutMut => "mutationWithoutMut")
      | "let" | "mut" => (match checkAssign frames "x" true with | .accepted => "accepted" | .mutationWithoutMut => "mutationWithoutMut")
      | _ => compoundVerdict frames "x")
    | _, _ => "bad-op")
  | ["match", variants, isOpt, arms] =>
    let pats := (arms.splitOn ",").map fun a =>
      if a == "w" then Pat.wildcard else if a == "b" then .binding else if a == "n" then .noneLiteral
      else if a.front == 'c' then .ctor (a.drop 1).toString else .other
    (match missingVariants (variants.splitOn ",") (isOpt == "1") pats with
    | [] => "complete"
    | ms => "missing " ++ ",".intercalate ms)
  | ["call", _kind, params, args, _truth] =>
    let ps : List (String × String) := (params.splitOn ";").map fun p => match p.splitOn ":" with
      | [n, t] => (n, t)
      | _ => ("?", "?")
    let as : List CArg := (args.splitOn ";").map fun a => match a.splitOn "=" with
      | [n, t] => ⟨some n, t⟩
      | _ => ⟨none, a⟩
    -- `types_compatible` on the generated type names is equality; Box adopts Shape, Sq extends Box
    let ok (a e : String) : Bool := a == e || (e == "Shape" && (a == "Box" || a == "Sq"))
    let flagged := validateArgs ok as ps 0
    (match (List.range as.length).filter (fun i => flagged.contains i) with
    | [] => "accepted"
    | l => "flag " ++ ",".intercalate (l.map toString))
  | _ => "bad-op"

end Incan.Driver
