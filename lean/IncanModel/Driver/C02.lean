import IncanModel.Sem.CoreTyping
import IncanModel.Driver.C01
namespace Incan.Driver
open Incan.Core

def c02Sigs : String → Option Sig := fun f =>
  if f == "g" then some ⟨[.int], .int⟩ else if f == "h" then some ⟨[.int, .int], .int⟩ else none

def handleC02 : List String → String
  | ["core", _tag, accMut, enc] =>
    (match parseCB (enc.splitOn ";") with
    | some (body, []) =>
      -- parameters of f, then the two prelude bindings the harness writes before the generated body
      let params : List (String × VarInfo) :=
        [("ys", ⟨.listInt, true⟩), ("acc", ⟨.int, accMut == "1"⟩), ("xs", ⟨.listInt, false⟩), ("flag", ⟨.bool, false⟩),
         ("b", ⟨.int, false⟩), ("a", ⟨.int, false⟩)]
      -- the function ends with `return acc`
      let full := body
      (match chkB false c02Sigs .int [params] full with
      | none => "reject"
      | some _ => if (rustB c02Sigs .int [params] full).isSome then "accept built" else "accept rustc-error")
    | _ => "bad-op")
  | _ => "bad-op"

end Incan.Driver
