import IncanModel.Sem.ConstEval
import IncanModel.Driver.Util
import IncanModel.Sem.Comprehension
namespace Incan.Driver
open Incan.ConstEval

def parseCOp : String → Option Op
  | "add" => some .add | "sub" => some .sub | "mul" => some .mul | "div" => some .div | "floorDiv" => some .floorDiv
  | "mod" => some .mod | "pow" => some .pow | "eq" => some .eq | "ne" => some .ne | "lt" => some .lt | "gt" => some .gt
  | "le" => some .le | "ge" => some .ge | "and" => some .and_ | "or" => some .or_ | "in" => some .in_
  | "notIn" => some .notIn | "is" => some .is_ | _ => none

def parseHexU64 (s : String) : Option UInt64 := (parseHex s).map UInt64.ofNat

/-- Prefix parser with fuel: returns the expression and the remaining tokens. -/
def parseEGo : Nat → List String → Option (E × List String)
  | 0, _ => none
  | fuel + 1, tok :: rest =>
    let tl := (tok.drop 1).toString
    match tok.front with
    | 'i' => (parseI64 tl).map fun n => (.int n, rest)
    | 'f' => (parseHexU64 tl).map fun b => (.float (Float.ofBits b), rest)
    | 'b' => some (.bool (tl == "T"), rest)
    | 's' => (parseStr tl).map fun s => (.str s, rest)
    | 'r' => some (.ref tl, rest)
    | 'A' => some (.absent, rest)
    | 'O' => some (.other, rest)
    | 'N' => (parseEGo fuel rest).map fun (e, r) => (.neg e, r)
    | '!' => (parseEGo fuel rest).map fun (e, r) => (.not_ e, r)
    | 'B' =>
      (match parseCOp tl, parseEGo fuel rest with
      | some op, some (l, r1) => (parseEGo fuel r1).map fun (r, r2) => (.bin op l r, r2)
      | _, _ => none)
    | 'X' =>
      (match parseEGo fuel rest with
      | some (b, r1) => (parseEGo fuel r1).map fun (i, r2) => (.index b i, r2)
      | none => none)
    | 'S' =>
      (match parseEGo fuel rest with
      | some (b, r1) => (match parseEGo fuel r1 with
        | some (s, r2) => (match parseEGo fuel r2 with
          | some (e, r3) => (parseEGo fuel r3).map fun (p, r4) => (.slice b s e p, r4)
          | none => none)
        | none => none)
      | none => none)
    | _ => none
  | _, [] => none

def parseE (s : String) : Option E :=
  let toks := s.splitOn ";"
  match parseEGo (toks.length + 1) toks with
  | some (e, []) => some e
  | _ => none

def showCTy : Ty → String
  | .int => "int" | .float => "float" | .bool => "bool" | .fstr => "FrozenStr" | .unknown => "Unknown"

def showCV : CV → String
  | .int n => s!"int:{n.toInt}" | .float f => s!"float:{String.ofList (List.replicate (16 - (toHex f.toBits.toNat).length) '0') ++ toHex f.toBits.toNat}"
  | .bool b => s!"bool:{b}" | .str s => s!"str:{showStr s}"

def showRV : RV → String
  | .int n => s!"int:{n.toInt}" | .float f => s!"float:{String.ofList (List.replicate (16 - (toHex f.toBits.toNat).length) '0') ++ toHex f.toBits.toNat}"
  | .bool b => s!"bool:{b}" | .str s => s!"str:{showStr s}"

def showCErr : CErr → String
  | .nonConst _ => "nonConst" | .notAllowed => "notAllowed" | .unaryNeg => "unaryNeg" | .unaryNot => "unaryNot"
  | .binaryUnsupported => "binaryUnsupported" | .cannotCompare => "cannotCompare" | .logicalNeedsBool => "logicalNeedsBool"
  | .operatorNotAllowed => "operatorNotAllowed" | .indexOnlyStrings => "indexOnlyStrings" | .indexMustBeInt => "indexMustBeInt"
  | .sliceOnlyStrings => "sliceOnlyStrings" | .sliceBoundMustBeInt => "sliceBoundMustBeInt"
  | .stringIndexOutOfRange => "stringIndexOutOfRange" | .sliceStepZero => "sliceStepZero"

def showRErr : RErr → String
  | .zeroDivision => "zeroDivision" | .stringIndexOutOfRange => "stringIndexOutOfRange" | .sliceStepZero => "sliceStepZero"
  | .stuck => "stuck"

/-- Base consts: each definition evaluated in order, as `check_and_resolve_const` does. -/
def parseDefs (s : String) : Option (List (String × E)) :=
  (s.splitOn "|").foldr (fun d acc => match acc, d.splitOn "=" with
    | some l, [n, e] => (parseE e).map fun e => (n, e) :: l
    | _, _ => none) (some [])

def constTable (defs : List (String × E)) : String → Option (Ty × Option CV) :=
  defs.foldl (fun C (n, e) => match constEval C e with
    | .ok r => fun x => if x == n then some r else C x
    | .error _ => C) (fun _ => none)

def runTable (defs : List (String × E)) : String → Option RV :=
  defs.foldl (fun R (n, e) => match runEval R e with
    | .ok v => fun x => if x == n then some v else R x
    | .error _ => R) (fun _ => none)

def staticTable (defs : List (String × E)) : String → Option (List Char) :=
  defs.foldl (fun S (n, e) => match staticStr S e with
    | some v => fun x => if x == n then some v else S x
    | none => S) (fun _ => none)

def handleC06 : List String → String
  | ["frozenset", elems, probes] =>
    let es : List Int := (elems.splitOn ",").filterMap String.toInt?
    let ps : List Int := (probes.splitOn ",").filterMap String.toInt?
    ",".intercalate (ps.map fun p => if Incan.Comp.contains es p then "true" else "false")
  | ["const", defs, e] =>
    (match parseDefs defs, parseE e with
    | some ds, some e =>
      (match constEval (constTable ds) e with
      | .ok (t, v) => s!"ok {showCTy t} {match v with | some v => showCV v | none => "none"}"
      | .error x => s!"err {showCErr x}")
    | _, _ => "bad-op")
  | ["run", defs, e] =>
    (match parseDefs defs, parseE e with
    | some ds, some e =>
      (match runEval (runTable ds) e with
      | .ok v => s!"ok {showRV v}"
      | .error x => s!"err {showRErr x}")
    | _, _ => "bad-op")
  | ["construn", defs, e] =>
    (match parseDefs defs, parseE e with
    | some ds, some e =>
      (match runEval (runTable ds) e with
      | .ok v => s!"ok {showRV v}"
      | .error x => s!"err {showRErr x}")
    | _, _ => "bad-op")
  | ["fold", defs, e] =>
    (match parseDefs defs, parseE e with
    | some ds, some e => (match staticStr (staticTable ds) e with | some s => s!"some {showStr s}" | none => "none")
    | _, _ => "bad-op")
  | ["cycle", graph] =>
    let entries := (graph.splitOn ",").filterMap fun g => match g.splitOn ":" with
      | [n, ds] => some (n, if ds == "-" then [] else ds.splitOn "+")
      | _ => none
    let deps : String → Option (List String) := fun n => (entries.find? (·.1 == n)).map (·.2)
    -- every const is resolved in declaration order; the first error is the one reported first
    let rec go : List (String × List String) → String
      | [] => "ok"
      | (n, _) :: rest => match visit deps (entries.length + 1) [] n with
        | .ok () => go rest
        | .error (.cycle p) => "cycle " ++ ">".intercalate p
        | .error (.unknown _) => "err nonConst"
        | .error .fuel => "fuel"
    go entries
  | _ => "bad-op"

end Incan.Driver
