import IncanModel.Tool.Lsp
import IncanModel.Driver.Util
namespace Incan.Driver
open Incan.Lsp

/-- history item: `o<doc>.<ver>.<kind>` / `g<doc>.<ver>.<kind>` / `c<doc>` -/
def parseNote (s : String) : Option Note :=
  match s.toList with
  | 'c' :: d => (String.ofList d).toNat?.map fun u => ⟨u, .close⟩
  | t :: rest =>
    if t == 'o' || t == 'g' then
      match (String.ofList rest).splitOn "." with
      | [d, v, k] =>
        (match d.toNat?, v.toNat? with
        | some u, some ver => some ⟨u, .update ver (k != "b" && k != "l")⟩   -- b: parse error, l: lexer error
        | _, _ => none)
      | _ => none
    else none
  | [] => none

/-- Replay the server's own event log (from the hook) on the model of the fixed protocol.
Events: `recv:open:doc0:1`, `recv:change:doc0:2`, `recv:close:doc0`, `store:doc0:2`, `remove:doc0`.
Receive events must come in arrival order; a `store`/`remove` event is matched to the earliest
received, not yet finished handler with that document (and version). -/
def replay (h : List Note) (events : List String) : Option (St × Bool) :=
  let docNum := fun (s : String) => (s.drop 3).toString.toNat?
  let rec go (evs : List String) (s : St) (next : Nat) (pend : List Nat) (ok : Bool) (fuel : Nat) : Option (St × Bool) :=
    match fuel, evs with
    | 0, _ => none
    | _, [] => some (s, ok)
    | f + 1, e :: r =>
      match e.splitOn ":" with
      | "recv" :: _ => go r (execNew h s (.recv next)) (next + 1) (pend ++ [next]) ok f
      | ["store", d, v] =>
        (match docNum d, v.toNat? with
        | some u, some ver =>
          match pend.find? (fun i => match h[i]? with
              | some n => n.uri == u && (match n.kind with | .update p _ => p == ver | .close => false)
              | none => false) with
          | some i =>
            let s' := execNew h s (.store i)
            -- the real server stored: the model's guard must have allowed it
            let applied := s'.docs u == some ver
            go r s' next (pend.erase i) (ok && applied) f
          | none => go r s next pend false f
        | _, _ => none)
      | ["remove", d] =>
        (match docNum d with
        | some u =>
          match pend.find? (fun i => match h[i]? with
              | some n => n.uri == u && n.kind == Kind.close
              | none => false) with
          | some i =>
            let guardOk := s.latest u == none
            go r (execNew h s (.store i)) next (pend.erase i) (ok && guardOk) f
          | none => go r s next pend false f
        | none => none)
      | _ => none
  go events St.init 0 [] true (events.length + 1)

def handleC18 : List String → String
  | ["dep", _label] => "same"   -- effectiveText: the open text is what is analysed (open_dependency_overrides_disk)
  -- the last field lists the didSave notifications that were sent in between: they are not part of the history
  -- (a save carries no text, changes nothing and logs no receive event)
  | ["run", hist, evs, _saves] =>
    let h := (hist.splitOn ",").foldr (fun t acc => match acc, parseNote t with
      | some l, some n => some (n :: l) | _, _ => none) (some [])
    (match h with
    | some h =>
      let events := if evs == "-" then [] else evs.splitOn ","
      (match replay h events with
      | some (s, ok) =>
        let docsUsed := (h.map (·.uri)).eraseDups
        let showDoc := fun (u : Nat) =>
          -- a stored text with a syntax error has no AST: hover answers nothing
          let v := match s.docs u with
            | some p =>
              if h.any (fun n => n.uri == u && n.kind == Kind.update p false) then "none" else s!"v{p}"
            | none => "none"
          s!"doc{u}={v}"
        let sorted := docsUsed.mergeSort (· ≤ ·)
        s!"{";".intercalate (sorted.map showDoc)}{if ok then "" else " MODEL-GUARD-MISMATCH"}"
      | none => "bad-op")
    | none => "bad-op")
  | _ => "bad-op"

end Incan.Driver
