import IncanModel.Sem.Regroup
import IncanModel.Sem.Derive
import IncanModel.Driver.Util
import IncanModel.Sem.Comprehension
namespace Incan.Driver
open Incan.Core

def parseAOp : String → Option AOp
  | "add" => some .add | "sub" => some .sub | "mul" => some .mul | "floorDiv" => some .floorDiv | "mod" => some .mod | _ => none
def parseCmpOp : String → Option COp
  | "eq" => some .eq | "ne" => some .ne | "lt" => some .lt | "le" => some .le | "gt" => some .gt | "ge" => some .ge | _ => none

partial def parseCE : List String → Option (E × List String)
  | tok :: rest =>
    let tl := (tok.drop 1).toString
    (match tok.front with
    | 'i' => tl.toInt?.map fun n => (.int n, rest)
    | 'b' => some (.bool (tl == "T"), rest)
    | 's' => (parseStr tl).map fun s => (.str s, rest)
    | 'v' => some (.var tl, rest)
    | 'N' => (parseCE rest).map fun (e, r) => (.neg e, r)
    | '!' => (parseCE rest).map fun (e, r) => (.not_ e, r)
    | 'P' => (parseCE rest).map fun (e, r) => (.paren e, r)
    | 'L' => (parseCE rest).map fun (e, r) => (.len e, r)
    | 'A' => (match parseAOp tl, parseCE rest with
      | some op, some (l, r1) => (parseCE r1).map fun (r, r2) => (.arith op l r, r2)
      | _, _ => none)
    | 'C' => (match parseCmpOp tl, parseCE rest with
      | some op, some (l, r1) => (parseCE r1).map fun (r, r2) => (.cmp op l r, r2)
      | _, _ => none)
    | '&' => (match parseCE rest with | some (l, r1) => (parseCE r1).map fun (r, r2) => (.and_ l r, r2) | none => none)
    | '|' => (match parseCE rest with | some (l, r1) => (parseCE r1).map fun (r, r2) => (.or_ l r, r2) | none => none)
    | '+' => (match parseCE rest with | some (l, r1) => (parseCE r1).map fun (r, r2) => (.concat l r, r2) | none => none)
    | 'X' => (match parseCE rest with | some (l, r1) => (parseCE r1).map fun (r, r2) => (.index l r, r2) | none => none)
    | '1' => (parseCE rest).map fun (a, r) => (.call1 tl a, r)
    | '2' => (match parseCE rest with | some (a, r1) => (parseCE r1).map fun (b, r2) => (.call2 tl a b, r2) | none => none)
    | _ => none)
  | [] => none

mutual
  partial def parseCS : List String → Option (S × List String)
    | tok :: rest =>
      let tl := (tok.drop 1).toString
      (match tok.front with
      | 'M' => (parseCE rest).map fun (e, r) => (.letS true tl e, r)
      | 'l' => (parseCE rest).map fun (e, r) => (.letS false tl e, r)
      | '=' => (parseCE rest).map fun (e, r) => (.assign tl e, r)
      | 'a' => (match tl.splitOn ":" with
        | [op, x] => (match parseAOp op, parseCE rest with
          | some op, some (e, r) => some (.aug x op e, r)
          | _, _ => none)
        | _ => none)
      | 'I' => (match tl.splitOn ":" with
        | [k, hasElse] => (match k.toNat?, parseCE rest with
          | some k, some (c, r1) => (match parseCB r1 with
            | some (thn, r2) => (parseElse k (hasElse == "1") r2).map fun (els, r3) => (.ifS c thn els, r3)
            | none => none)
          | _, _ => none)
        | _ => none)
      | 'W' => (match parseCE rest with | some (c, r1) => (parseCB r1).map fun (b, r2) => (.whileS c b, r2) | none => none)
      | 'R' => (match parseCE rest with
        | some (lo, r1) => (match parseCE r1 with
          | some (hi, r2) => (parseCB r2).map fun (b, r3) => (.forRange tl lo hi b, r3)
          | none => none)
        | none => none)
      | 'F' => (match parseCE rest with | some (xs, r1) => (parseCB r1).map fun (b, r2) => (.forList tl xs b, r2) | none => none)
      | 'p' => (parseCE rest).map fun (e, r) => (.append tl e, r)
      | 'r' => (parseCE rest).map fun (e, r) => (.ret e, r)
      | 'o' => (parseCE rest).map fun (e, r) => (.print e, r)
      | 'O' => (match parseCE rest with | some (a, r1) => (parseCE r1).map fun (b, r2) => (.print2 a b, r2) | none => none)
      | 'e' => (parseCE rest).map fun (e, r) => (.exprS e, r)
      | 'k' => some (.brk, rest)
      | 'c' => some (.cont, rest)
      | _ => none)
    | [] => none
  partial def parseCB : List String → Option (Blk × List String)
    | tok :: rest => (match (tok.drop 1).toString.toNat? with
      | some n => if tok.front == 'B' then parseStmts n rest else none
      | none => none)
    | [] => none
  partial def parseStmts : Nat → List String → Option (Blk × List String)
    | 0, r => some (.nil, r)
    | n + 1, r => (match parseCS r with
      | some (s, r1) => (parseStmts n r1).map fun (b, r2) => (.cons s b, r2)
      | none => none)
  partial def parseElse : Nat → Bool → List String → Option (Else × List String)
    | 0, false, r => some (.none, r)
    | 0, true, r => (parseCB r).map fun (b, r1) => (.else_ b, r1)
    | k + 1, hasElse, r => (match parseCE r with
      | some (c, r1) => (match parseCB r1 with
        | some (b, r2) => (parseElse k hasElse r2).map fun (rest, r3) => (.elif c b rest, r3)
        | none => none)
      | none => none)
end

/-- The two helper functions every generated program declares. -/
def gCall : String → V → List String → R V := fun _ v out => match v with
  | .int x => .ok (.int (x + 1)) (out ++ [toString x])
  | _ => .stop .stuck out
def hCall : String → V → V → List String → R V := fun _ v w out => match v, w with
  | .int x, .int y => .ok (.int (x * 2 - y)) (out ++ [toString (x - y)])
  | _, _ => .stop .stuck out

def showStop : Stop → String
  | .zeroDivision => "ZeroDivisionError" | .indexError => "IndexError" | .fuel => "fuel" | .stuck => "stuck"

def runProgram (body : Blk) (args : String) : String :=
  let calls := args.splitOn "|"
  -- main: r_i = f(args_i); print(r_i) — stops at the first error
  let rec go (cs : List String) (out : List String) : String :=
    match cs with
    | [] => "done " ++ (if out.isEmpty then "-" else ",".intercalate out)
    | c :: rest =>
      (match c.splitOn ":" with
      | [a, b, fl, xs] =>
        let xsv := if xs == "" then [] else (xs.splitOn "_").filterMap String.toInt?
        let env : Env := [("ys", .list [1]), ("acc", .int 0), ("xs", .list xsv), ("flag", .bool (fl == "1")),
                          ("b", .int (b.toInt?.getD 0)), ("a", .int (a.toInt?.getD 0))]
        (match execB gCall hCall 1000 env out body with
        | .ok (fl, env') o =>
          let r := match fl with
            | .ret v => v
            | _ => (env'.get "acc").getD .unit
          go rest (o ++ [showV r])
        | .stop w o => showStop w ++ " " ++ (if o.isEmpty then "-" else ",".intercalate o))
      | _ => "bad-args")
  go calls []

mutual
  partial def renderS : S → String
    | .letS m x e => s!"let({m},{x},{reprStr e})"
    | .assign x e => s!"assign({x},{reprStr e})"
    | .aug x op e => s!"aug({x},{reprStr op},{reprStr e})"
    | .ifS c t e => s!"if({reprStr c},{renderB t},{renderElse e})"
    | .whileS c b => s!"while({reprStr c},{renderB b})"
    | .forRange x lo hi b => s!"forrange({x},{reprStr lo},{reprStr hi},{renderB b})"
    | .forList x xs b => s!"forlist({x},{reprStr xs},{renderB b})"
    | .append x e => s!"append({x},{reprStr e})"
    | .ret e => s!"ret({reprStr e})"
    | .print e => s!"print({reprStr e})"
    | .print2 a b => s!"print2({reprStr a},{reprStr b})"
    | .exprS e => s!"expr({reprStr e})"
    | .brk => "break"
    | .cont => "continue"
  partial def renderB : Blk → String
    | .nil => "[]"
    | .cons s r => renderS s ++ ";" ++ renderB r
  partial def renderElse : Else → String
    | .none => "none"
    | .elif c t r => s!"elif({reprStr c},{renderB t},{renderElse r})"
    | .else_ b => s!"else({renderB b})"
end

/-- `C0:a,b;C1:b;C2:` → root-first levels (class, methods it declares). -/
def parseLevels (s : String) : List (String × List String) :=
  (s.splitOn ";").map fun l => match l.splitOn ":" with
    | [c, ms] => (c, if ms == "" then [] else ms.splitOn ",")
    | _ => (l, [])

/-- For every class of the chain and every method it has: which class's body runs (model: the entries
`collect_inherited_methods` leaves in the impl block). -/
def dispatchTable (levels : List (String × List String)) : String :=
  let cs : List (Incan.Derive.Decl (List String)) := Incan.Derive.chainDecls levels none
  let names := ["a", "b", "c", "d"]
  let lines := (List.range levels.length).flatMap fun i =>
    let cname := ((levels[i]?).map (·.1)).getD "?"
    let entries := Incan.Derive.inheritedMethods cs cs.length cname
    names.filterMap fun m => (Incan.Derive.dispatch entries m).map fun o => s!"{i}.{m}={o}"
  "done " ++ (if lines.isEmpty then "-" else ",".intercalate lines)

def handleC01 : List String → String
  | ["dispatch", levels] => dispatchTable (parseLevels levels)
  | ["comp", xs, cond, elem] =>
    -- a comprehension over the listed values with one of the harness's condition / element families
    let vals : List Int := (xs.splitOn ",").filterMap String.toInt?
    let c : Option (Int → Bool) := match cond with
      | "mod2" => some fun x => x.fmod 2 == 0 | "mod3" => some fun x => x.fmod 3 == 1 | "lt" => some fun x => x < 4
      | "gt" => some fun x => x > 0 | "ne" => some fun x => x != 2 | "all" => some fun _ => true | _ => none
    let e : Option (Int → Int) := match elem with
      | "id" => some id | "add" => some (· + 1) | "mul" => some (· * 10) | "sub" => some (· - 3)
      | "rsub" => some (7 - ·) | "sq" => some fun x => x * x | _ => none
    (match c, e with
    | some c, some e =>
      let r := Incan.Comp.meaning vals c e
      s!"{r.length} {if r.isEmpty then "-" else ",".intercalate (r.map toString)}"
    | _, _ => "bad-op")
  | [_kind, args, enc, _py] =>
    (match parseCB (enc.splitOn ";") with
    | some (body, []) =>
      (match regroupB body with
      | none => "rustc-error"
      | some compiled =>
        -- Safe: rustc reads the emitted text with the grouping the source has
        let safe := renderB compiled == renderB (desugarB body)
        let predicted := runProgram compiled args
        let documented := runProgram body args
        s!"{predicted} safe={if safe then 1 else 0} documented={if predicted == documented then "same" else documented.replace " " "_"}")
    | _ => "bad-op")
  | _ => "bad-op"

end Incan.Driver
