import IncanModel.Sem.Newtype
import IncanModel.Driver.Util
namespace Incan.Driver
open Incan.Newtype

/-- Types travel in prefix form: `s.int`, `g1.Option.s.Pos`, `g2.Result.s.Pos.s.str`. -/
def parseTyGo : Nat → List String → Option (Ty × List String)
  | 0, _ => none
  | _ + 1, "s" :: n :: rest => some (.simple n, rest)
  | fuel + 1, "g1" :: n :: rest =>
    (match parseTyGo fuel rest with
    | some (a, rest') => some (.generic1 n a, rest')
    | none => none)
  | fuel + 1, "g2" :: n :: rest =>
    (match parseTyGo fuel rest with
    | some (a, rest') =>
      (match parseTyGo fuel rest' with
      | some (b, rest'') => some (.generic2 n a b, rest'')
      | none => none)
    | none => none)
  | _, _ => none

def parseTy (s : String) : Option Ty :=
  let toks := s.splitOn "."
  match parseTyGo (toks.length + 1) toks with
  | some (t, []) => some t
  | _ => none

def parseMethod (s : String) : Option Method :=
  match s.splitOn "/" with
  | [name, recv, params, ret] =>
    let ps := (params.splitOn "+").foldr (fun p acc => match acc, parseTy p with
      | some l, some t => some (t :: l) | _, _ => none) (some [])
    (match ps, parseTy ret with
    | some ps, some r => some ⟨name, recv == "1", ps, r⟩
    | _, _ => none)
  | _ => none

/-- The harness's validation hook: rejects n ≤ 0, otherwise wraps n + shift. -/
def driverHook (shift : Int) : String → Val → Option Val := fun _ v => match v with
  | .int n => if n ≤ 0 then none else some (.int (n + shift))
  | _ => none

/-- The expression (and lowering context, environment) each construction site of the harness stands for. -/
def siteExpr (site : String) (v : Int) : Option (Option String × (String → Option Val) × Expr) :=
  let noenv : String → Option Val := fun _ => none
  let nEnv : String → Option Val := fun x => if x == "n" then some (.int v) else none
  match site with
  | "let" | "arg" | "matcharm" => some (none, noenv, .under (.ctor "Pos" (.lit v)))
  | "list2" => some (none, noenv, .under (.snd (.pair (.ctor "Pos" (.lit 1)) (.ctor "Pos" (.lit v)))))
  | "list1" => some (none, noenv, .under (.snd (.pair (.ctor "Pos" (.lit v)) (.ctor "Pos" (.lit 1)))))
  | "field" | "some" | "dict" | "fielddefault" => some (none, noenv, .under (.unwrap (.wrap (.ctor "Pos" (.lit v)))))
  | "fieldassign" => some (none, noenv, .under (.snd (.pair (.ctor "Pos" (.lit 1)) (.ctor "Pos" (.lit v)))))
  | "tuple" => some (none, noenv, .under (.fst (.pair (.ctor "Pos" (.lit v)) (.lit 2))))
  | "ok" | "ret" | "compr" => some (none, nEnv, .under (.unwrap (.wrap (.ctor "Pos" (.var "n")))))
  | "othermethod" => some (some "Other", nEnv, .under (.ctor "Pos" (.var "n")))
  | "modelmethod" => some (some "Holder", nEnv, .under (.ctor "Pos" (.var "n")))
  | "ownmethod" =>
    some (some "Pos", fun x => if x == "self" then some (.nt "Pos" (.int 5)) else if x == "d" then some (.int v) else none,
      .under (.ctor "Pos" (.add (.under (.var "self")) (.var "d"))))
  | "nested" => some (none, noenv, .under (.ctor "Pos" (.add (.under (.ctor "Pos" (.lit v))) (.lit 1))))
  | "alias" => some (none, noenv, .under (.alias "Pos" (.lit v)))
  | "named" => some (none, noenv, .under (.ctorNamed "Pos" (.lit v)))
  -- the argument is itself the payload of another (unhooked) newtype, alone or inside an expression; a list element
  | "rewrap" => some (none, noenv, .under (.ctor "Pos" (.under (.ctor "Other" (.lit v)))))
  | "rewrapexpr" => some (none, noenv, .under (.ctor "Pos" (.add (.under (.ctor "Other" (.lit v))) (.lit 0))))
  | "indexarg" => some (none, noenv, .under (.ctor "Pos" (.snd (.pair (.lit 1) (.lit v)))))
  | "fstring" => some (none, noenv, .under (.ctor "Pos" (.lit v)))
  | _ => none

def handleC17 : List String → String
  -- `_order`: where the harness placed the declaration of Pos; the lowering context of a site is a function of
  -- its enclosing declaration only (save/restore of current_impl_type), so the model ignores it
  | ["site", methods, shift, site, v, _order] =>
    let ms := if methods == "-" then some [] else
      (methods.splitOn ",").foldr (fun m acc => match acc, parseMethod m with
        | some l, some x => some (x :: l) | _, _ => none) (some [])
    (match ms, shift.toInt?, v.toInt?, siteExpr site (v.toInt?.getD 0) with
    | some ms, some sh, some _, some (cur, env, e) =>
      let d : Decl := ⟨"Pos", .simple "int", ms⟩
      let hooks : String → Option String := fun T => if T == "Pos" then selectHook d else none
      -- in the "ownmethod" site the setup `a = Pos(5)` in main is itself a checked construction (5 is valid);
      -- with a normalising hook it holds 5 + shift
      let env' : String → Option Val := fun x =>
        if site == "ownmethod" && x == "self" then
          (match hooks "Pos" with
           | some _ => some (.nt "Pos" (.int (5 + sh)))
           | none => some (.nt "Pos" (.int 5)))
        else env x
      (match eval (driverHook sh) env' (lower hooks cur e) with
      | .ok (.int n) => s!"ok {n}"
      | .ok _ => "ok ?"
      | .error (.validation T h) => s!"fail {T}::{h}"
      | .error .stuck => "unsupported")
    | _, _, _, _ => "bad-op")
  | ["usite", underlying, methods, valid] =>
    -- a hooked newtype over an arbitrary underlying type; validity of the argument is abstract (1 = accepted)
    let ms := (methods.splitOn ",").foldr (fun m acc => match acc, parseMethod m with
        | some l, some x => some (x :: l) | _, _ => none) (some [])
    (match ms, parseTy underlying with
    | some ms, some u =>
      let d : Decl := ⟨"Pos", u, ms⟩
      let hooks : String → Option String := fun T => if T == "Pos" then selectHook d else none
      let env : String → Option Val := fun x => if x == "x" then some (.int (if valid == "1" then 1 else 0)) else none
      (match eval (driverHook 0) env (lower hooks none (.ctor "Pos" (.var "x"))) with
      | .ok _ => "ok"
      | .error (.validation T h) => s!"fail {T}::{h}"
      | .error .stuck => "unsupported")
    | _, _ => "bad-op")
  | _ => "bad-op"

end Incan.Driver
