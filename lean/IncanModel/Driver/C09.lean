import IncanModel.Tool.FmtCli
namespace Incan.Driver
open Incan.FmtCli

def handleC09 : List String → String
  | ["cli", kind, c, d] =>
    let src := "S"
    let fmtd := "T"
    let fmt : String → Option String := fun s =>
      -- `unformatted:no-final-newline` etc.: the label after the colon only says how the text differs
      match (kind.splitOn ":").headD "" with
      | "formatted" => some s
      | "unformatted" => if s == src then some fmtd else some s
      | _ => none
    let o := perFile fmt (c == "true") (d == "true") src
    let status := if exitOk (c == "true") (d == "true") o then "exit0" else "exit1"
    let file := if o.contents == src then "unchanged" else if o.contents == fmtd then "rewritten-formatted" else "rewritten-other"
    s!"{status} {file}"
  | ["clidir", c, d] =>
    -- the fixed directory of the harness: unformatted, formatted, unformatted, broken, unformatted
    let fmt : String → Option String := fun s =>
      if s == "U" then some "T" else if s == "B" then none else some s
    let files := ["U", "T", "U", "B", "U"]
    let (outs, ok) := runFiles fmt (c == "true") (d == "true") files
    let showOne := fun (p : String × Outcome) =>
      if p.2.contents == p.1 then "unchanged" else if p.2.contents == "T" then "rewritten-formatted" else "rewritten-other"
    s!"{if ok then "exit0" else "exit1"} {",".intercalate ((files.zip outs).map showOne)}"
  | _ => "bad-op"

end Incan.Driver
