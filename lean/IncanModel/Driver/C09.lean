import IncanModel.Tool.FmtCli
import IncanModel.Tool.Writer
import IncanModel.Driver.Util
namespace Incan.Driver
open Incan.FmtCli

def handleC09 : List String → String
  | ["cli", kind, c, d] =>
    let src := "S"
    let fmtd := "T"
    let fmt : String → Option String := fun s =>
      -- `unformatted:no-final-newline` etc.: the label after the colon only says how the text differs
      match (kind.splitOn ":").headD "" with
      | "formatted" => some s
      | "unformatted" => if s == src then some fmtd else some s
      | _ => none
    let o := perFile fmt (c == "true") (d == "true") src
    let status := if exitOk (c == "true") (d == "true") o then "exit0" else "exit1"
    let file := if o.contents == src then "unchanged" else if o.contents == fmtd then "rewritten-formatted" else "rewritten-other"
    s!"{status} {file}"
  | ["clidir", c, d] =>
    -- the fixed directory of the harness: unformatted, formatted, unformatted, broken, unformatted
    let fmt : String → Option String := fun s =>
      if s == "U" then some "T" else if s == "B" then none else some s
    let files := ["U", "T", "U", "B", "U"]
    let (outs, ok) := runFiles fmt (c == "true") (d == "true") files
    let showOne := fun (p : String × Outcome) =>
      if p.2.contents == p.1 then "unchanged" else if p.2.contents == "T" then "rewritten-formatted" else "rewritten-other"
    s!"{if ok then "exit0" else "exit1"} {",".intercalate ((files.zip outs).map showOne)}"
  | ["writer", width, ops] =>
    -- ops: `w<chars>` / `n` / `i` / `d` / `e` / `b<k>` separated by `;`
    let parseOp : String → Option Incan.Writer.Op := fun t =>
      match t.toList with
      | ['n'] => some .newline
      | ['i'] => some .indent
      | ['d'] => some .dedent
      | ['e'] => some .endLine
      | 'b' :: k => (String.ofList k).toNat?.map .blankLines
      | 'w' :: cs => (parseStr (String.ofList cs)).map .write
      | _ => none
    let parsed := (ops.splitOn ";").foldr (fun t acc => match acc, parseOp t with
      | some l, some o => some (o :: l) | _, _ => none) (some [])
    (match width.toNat?, parsed with
    | some w, some os =>
      let r := Incan.Writer.run { width := w } os
      s!"{if Incan.Writer.clientOk false os then "1" else "0"} {showStr r.out}"
    | _, _ => "bad-op")
  | _ => "bad-op"

end Incan.Driver
