import IncanModel.Kernel.NumF
import IncanModel.Driver.Util
namespace Incan.Driver
open Incan.Num Incan.NumF

def showExceptI64 : Except Panic Int64 → String
  | .ok v => s!"ok {v.toInt}"
  | .error p => s!"panic {p.message}"

def showRes : Res → String
  | .int v => s!"ok i {v.toInt}"
  | .float f => if f.isNaN then "ok f nan" else s!"ok f {toHex f.toBits.toNat}"
  | .panic p => s!"panic {p.message}"

def parseNum (s : String) : Option Num :=
  if s.startsWith "i:" then (parseI64 (s.drop 2).toString).map Num.int
  else if s.startsWith "f:" then (parseHex (s.drop 2).toString).map fun n => Num.float (Float.ofBits n.toUInt64)
  else none

def handleC04 : List String → String
  | [op0, a, b] =>
    -- `prog_bin_pydiv` / `prog_aug_pyfloordiv` …: the operator as a compiled program uses it (binary or compound
    -- form) has the meaning of the wrapper
    -- `prog_<form>_<op>`: forms bin, aug (variables), lib / lia (right / left operand a literal), alb (compound, literal)
    let op := if op0.startsWith "prog_" then (match op0.splitOn "_" with
                | [_, _, o] => o
                | _ => op0) else op0
    match op with
    | "modcore" | "modstd" | "fdivcore" | "fdivstd" | "pymod_i64" | "pyfloordiv_i64" =>
      (match parseI64 a, parseI64 b with
      | some x, some y =>
        -- the raw kernels are only ever called with a non-zero divisor (debug_assert); mirror that
        showExceptI64 (match op with
          | "modcore" => modCore x y
          | "modstd" => modStd x y
          | "fdivcore" => floorDivCore x y
          | "fdivstd" => floorDivStd x y
          | "pymod_i64" => pyModI64 x y
          | _ => pyFloorDivI64 x y)
      | _, _ => "bad-op")
    | "pydiv" | "pymod" | "pyfloordiv" =>
      (match parseNum a, parseNum b with
      | some x, some y =>
        showRes (match op with
          | "pydiv" => pyDiv x y
          | "pymod" => pyMod x y
          | _ => pyFloorDiv x y)
      | _, _ => "bad-op")
    | "pymod_f64" | "pyfloordiv_f64" | "modcore_f64" =>
      (match parseNum a, parseNum b with
      | some (.float x), some (.float y) =>
        showRes (match op with
          | "pymod_f64" => pyMod (.float x) (.float y)
          | "pyfloordiv_f64" => pyFloorDiv (.float x) (.float y)
          | _ => .float (modF x y))
      | _, _ => "bad-op")
    | _ => "bad-op"
  | _ => "bad-op"

end Incan.Driver
