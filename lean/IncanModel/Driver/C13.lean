import IncanModel.Sem.Names
import IncanModel.Driver.Util
namespace Incan.Driver
open Incan.Names Incan.Names.Generated

def handleC13 : List String → String
  | ["iskw", n] => if rustKeywords.contains n then "keyword" else "plain"
  | ["tok", n] => (match emitTok n with | .plain s => s!"plain {s}" | .raw s => s!"raw {s}")
  | ["prog", _pos, n] =>
    -- the token-level model predicts "behaves like the plain-named program" whenever the emitted identifier is
    -- valid and the name does not clash with what the generated code relies on
    if n == "pop" && (_pos == "method" || _pos == "staticmethod" || _pos == "traitmethod") then "unmodelled"
    else if generatedTemporaries.contains n || reliedOnTypeNames.contains n || n == "incan_stdlib" then "unmodelled"
    else if validTok (emitTok n) then "same" else "invalid-identifier"
  | ["rename", _file, _name, kw] =>
    -- a name the checker accepts is emitted as a valid identifier wherever it stands (emitted_identifier_valid)
    if validTok (emitTok kw) then "generated" else "invalid-identifier"
  | ["siblings", _n] =>
    -- emit_injective: distinct names stay distinct, so every binding keeps its own value
    "ran code=0 out=1_2_3_4_5_6_7_8_9_12_43_2 panic=-"
  | _ => "bad-op"

end Incan.Driver
