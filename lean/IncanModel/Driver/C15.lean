import IncanModel.Tool.Cargo
import IncanModel.Tool.Scanners
import IncanModel.Driver.Util
namespace Incan.Driver
open Incan.Cargo

def showFeatures (fs : List String) : String :=
  "[" ++ ",".intercalate (fs.map fun f => "\"" ++ f ++ "\"") ++ "]"

def showSpec : Spec → String
  | .version v [] => "\"" ++ v ++ "\""
  | .version v fs => "{version=\"" ++ v ++ "\",features=" ++ showFeatures fs ++ "}"
  | .path p [] => "{path=\"<repo>/" ++ p ++ "\"}"
  | .path p fs => "{path=\"<repo>/" ++ p ++ "\",features=" ++ showFeatures fs ++ "}"
  | .wildcard => "\"*\""

def nameStr (n : Name) : String := String.ofList (n.map Char.ofNat)

def manifestLine (name : String) (flags : String) (crates : String) (program : Bool := false) : String :=
  let f : Flags := match flags.toList with
    | [s, t, a] => if program then featureFlags (s == '1') (t == '1') (a == '1') else ⟨s == '1', t == '1', a == '1'⟩
    | _ => ⟨false, false, false⟩
  let imports := if crates == "-" then [] else crates.splitOn ","
  match addCrates imports [] with
  | .error c => s!"error:unknown Rust crate `{c}`: no known-good version mapping exists."
  | .ok table =>
    let t : List (Name × Spec) := table.map fun e => (nm e.1, e.2)
    let deps := manifestDeps f t
    s!"pkg={name} bin={name} deps={";".intercalate (deps.map fun e => nameStr e.1 ++ "=" ++ showSpec e.2)}"

def handleC15 : List String → String
  | ["scan", feature, path] =>
    let steps := path.splitOn ">"
    let followed := if feature == "serde" then Incan.Scanners.jsonSteps else Incan.Scanners.asyncSteps
    if Incan.Scanners.scans followed steps then "detected" else "missed"
  | ["manifest", name, flags, crates, _rep] => manifestLine name flags crates
  | ["trigger", name, flags, crates, _scenario, _rep]
  | ["build", name, flags, crates, _where, _rep] =>
    -- the web flag of a *program* also switches serde/tokio detection off or on only through the scanners;
    -- the harness passes the scanner-relevant flags (serde, async, web) as they are in the program
    let m := manifestLine name flags crates true
    if m.startsWith "error:" then "refused:" ++ ((m.drop 6).toString.take 80).toString else "built | " ++ m
  | _ => "bad-op"

end Incan.Driver
