import IncanModel.Tool.Imports
import IncanModel.Driver.Util
namespace Incan.Driver
open Incan.Imports

def splitPath (s : String) : Path := if s.isEmpty then [] else s.splitOn "/"
def showPath (p : Option Path) : String :=
  match p with | some p => "/".intercalate p | none => "none"

def parseFs (s : String) : FS :=
  match s.splitOn "|" with
  | [fs, ds] =>
    { files := (fs.splitOn ";").filter (· ≠ "") |>.map splitPath,
      dirs := (ds.splitOn ";").filter (· ≠ "") |>.map splitPath }
  | _ => { files := [], dirs := [] }

def parseImp (s : String) : Option Import :=
  match s.splitOn ":" with
  | [f, segs, a, lv] =>
    let form := if f == "m" then Form.module else Form.from_
    lv.toNat?.map fun n =>
      { form := form, segments := if segs == "-" then [] else segs.splitOn ".", isAbsolute := a == "1", parentLevels := n }
  | _ => none

def handleC14 : List String → String
  | ["resolve", fs, entryDir, importerDir, imp] =>
    (match parseImp imp with
    | some i =>
      let f := parseFs fs
      s!"cli={showPath (resolveCli f (splitPath entryDir) i)} shared={showPath (resolveShared f (splitPath importerDir) i)}"
    | none => "bad-op")
  | ["resolve2", fs, entryDir, imp1, imp2] =>
    -- two imports of one entry file: each resolves on its own; what is loaded is the union
    (match parseImp imp1, parseImp imp2 with
    | some i1, some i2 =>
      let f := parseFs fs
      let one := fun i => match resolveCli f (splitPath entryDir) i with
        | some p => [showPath (some p)]
        | none => []
      let all := (one i1 ++ one i2).eraseDups
      let sorted := all.mergeSort (fun a b => a ≤ b)
      s!"cli={if sorted.isEmpty then "none" else ",".intercalate sorted}"
    | _, _ => "bad-op")
  | ["check", name] =>
    -- visibility scenarios of the harness: module `m` exports open_ and SHOWN
    let deps : List ModuleExports := [⟨"m", ["open_", "SHOWN"]⟩]
    let verdict := fun (imp : Import) (items : List String) =>
      if (rejectedNames deps imp items).isEmpty then "accept" else "reject"
    (match name with
    | "from-public" => verdict ⟨.from_, ["m"], false, 0⟩ ["open_"]
    | "from-private" => verdict ⟨.from_, ["m"], false, 0⟩ ["secret"]
    | "from-private-const" => verdict ⟨.from_, ["m"], false, 0⟩ ["HIDDEN"]
    | "from-mixed" => verdict ⟨.from_, ["m"], false, 0⟩ ["open_", "secret"]
    | "module-public" => verdict ⟨.module, ["m", "open_"], false, 0⟩ []
    | "module-private" => verdict ⟨.module, ["m", "secret"], false, 0⟩ []
    -- `import m` itself names no item: the import check accepts; qualified access is not checked by it
    | "qualified-private" => verdict ⟨.module, ["m"], false, 0⟩ []
    | "qualified-public" => verdict ⟨.module, ["m"], false, 0⟩ []
    | _ => "unmodelled")
  | ["vis", decls, form, item, modpath] =>
    -- decls: kind:name:pub:variants(+)  separated by ';'
    let parseKind : String → Option DKind
      | "const" => some .const | "model" => some .model | "class" => some .class_ | "enum" => some .enum_
      | "newtype" => some .newtype | "trait" => some .trait | "fn" => some .function | _ => none
    let ds := (decls.splitOn ";").foldr (fun t acc => match acc, t.splitOn ":" with
      | some l, [k, n, p, vs] => (match parseKind k with
        | some kind => some (⟨kind, n, p == "1", if vs == "-" then [] else vs.splitOn "+"⟩ :: l)
        | none => none)
      | _, _ => none) (some [])
    (match ds with
    | some ds =>
      -- the dependency is registered under the module's path joined by `_` (collect_modules), wherever it lives
      let segs := modpath.splitOn "."
      let deps := [moduleExports ("_".intercalate segs) ds]
      -- `… as alias`: the alias names the import locally; visibility is asked of the imported name
      let alias : Option String := match form.splitOn "-" with
        | [_, a] => some a
        | _ => none
      -- `bare`: the name used without being imported by name — known iff the module exports it
      if form == "bare" then (if bareKnown deps item then "accept" else "reject") else
      let rej := if form.startsWith "from" then rejectedItems deps ⟨.from_, segs, false, 0⟩ [⟨item, alias⟩]
                 else rejectedNames deps ⟨.module, segs ++ [item], false, 0⟩ []
      if rej.isEmpty then "accept" else "reject"
    | none => "bad-op")
  | _ => "bad-op"

end Incan.Driver
