import IncanModel.Syntax.Layout
import IncanModel.Driver.Util
namespace Incan.Driver
open Incan.Layout

def parseItem (s : String) : Option Item :=
  match s.toList with
  | 'c' :: h => (parseHex (String.ofList h)).bind fun n =>
      if hv : n.isValidChar then some (.ch (Char.ofNatAux n hv)) else none
  | 't' :: h => (parseHex (String.ofList h)).map fun n => .tok n false false
  | 'o' :: h => (parseHex (String.ofList h)).map fun n => .tok n true false
  | 'x' :: h => (parseHex (String.ofList h)).map fun n => .tok n false true
  | _ => none

def showTok : Tok → String
  | .indent => "I" | .dedent => "D" | .newline => "N" | .eof => "E"
  | .tok id => s!"T{toHex id}" | .bad => "!" | .inconsistent => "!"

def handleC10 : List String → String
  | ["lex", items] =>
    let parsed : Option (List Item) :=
      if items == "-" then some [] else
      (items.splitOn ",").foldr (fun t acc => match acc, parseItem t with
        | some l, some i => some (i :: l) | _, _ => none) (some [])
    (match parsed with
    | some its =>
      let toks := lex its
      if toks.any (fun t => t == .bad || t == .inconsistent) then "err"
      else ",".intercalate (toks.map showTok)
    | none => "bad-op")
  | _ => "bad-op"

end Incan.Driver
