import IncanModel.Syntax.Ladder
import IncanModel.Driver.Util
import IncanModel.Syntax.Literals
namespace Incan.Driver
open Incan.Ladder

def tokOfName (s : String) : Option Tok :=
  match s with
  | "lparen" => some .lparen | "rparen" => some .rparen | "lbrack" => some .lbrack | "rbrack" => some .rbrack
  | "quest" => some .quest | "or" => some .kwOr | "and" => some .kwAnd | "not" => some .kwNot
  | "in" => some .kwIn | "is" => some .kwIs | "await" => some .kwAwait
  | "eqeq" => some .eqeq | "noteq" => some .noteq | "lt" => some .lt | "gt" => some .gt
  | "lteq" => some .lteq | "gteq" => some .gteq | "dotdot" => some .dotdot | "dotdoteq" => some .dotdoteq
  | "plus" => some .plus | "minus" => some .minus | "star" => some .star | "slashslash" => some .slashslash
  | "slash" => some .slash | "percent" => some .percent | "starstar" => some .starstar
  | _ => if s.startsWith "a" then (s.drop 1).toString.toNat?.map Tok.atom else none

def nameOfTok : Tok → String
  | .atom a => s!"a{a}" | .lparen => "lparen" | .rparen => "rparen" | .lbrack => "lbrack" | .rbrack => "rbrack"
  | .quest => "quest" | .kwOr => "or" | .kwAnd => "and" | .kwNot => "not" | .kwIn => "in" | .kwIs => "is"
  | .kwAwait => "await" | .eqeq => "eqeq" | .noteq => "noteq" | .lt => "lt" | .gt => "gt" | .lteq => "lteq"
  | .gteq => "gteq" | .dotdot => "dotdot" | .dotdoteq => "dotdoteq" | .plus => "plus" | .minus => "minus"
  | .star => "star" | .slashslash => "slashslash" | .slash => "slash" | .percent => "percent" | .starstar => "starstar"

def bopName : BOp → String
  | .or_ => "or" | .and_ => "and" | .eq => "eq" | .ne => "ne" | .lt => "lt" | .gt => "gt" | .le => "le" | .ge => "ge"
  | .in_ => "in" | .notIn => "notIn" | .is_ => "is" | .range => "range" | .rangeIncl => "rangeIncl"
  | .add => "add" | .sub => "sub" | .mul => "mul" | .floorDiv => "floorDiv" | .div => "div" | .mod => "mod" | .pow => "pow"

def bopOfName : String → Option BOp
  | "or" => some .or_ | "and" => some .and_ | "eq" => some .eq | "ne" => some .ne | "lt" => some .lt | "gt" => some .gt
  | "le" => some .le | "ge" => some .ge | "in" => some .in_ | "notIn" => some .notIn | "is" => some .is_
  | "range" => some .range | "rangeIncl" => some .rangeIncl | "add" => some .add | "sub" => some .sub
  | "mul" => some .mul | "floorDiv" => some .floorDiv | "div" => some .div | "mod" => some .mod | "pow" => some .pow
  | _ => none

def showSexpr : Expr → String
  | .atom a => s!"a{a}"
  | .paren e => s!"(paren {showSexpr e})"
  | .pre .not_ e => s!"(not {showSexpr e})"
  | .pre .neg e => s!"(neg {showSexpr e})"
  | .pre .await_ e => s!"(await {showSexpr e})"
  | .bin op l r => s!"({bopName op} {showSexpr l} {showSexpr r})"
  | .try_ e => s!"(try {showSexpr e})"
  | .index e i => s!"(index {showSexpr e} {showSexpr i})"

/-- S-expression reader (words separated by `_`, as sent on the wire). -/
def readSexpr : Nat → List String → Option (Expr × List String)
  | 0, _ => none
  | fuel + 1, w :: rest =>
    if w.startsWith "(" then
      let head := (w.drop 1).toString
      let strip := fun (s : String) => s   -- closing parens are separate words after tokenisation
      match head with
      | "paren" | "not" | "neg" | "await" | "try" =>
        (match readSexpr fuel rest with
        | some (e, ")" :: r) =>
          let ex := match head with
            | "paren" => Expr.paren e | "not" => .pre .not_ e | "neg" => .pre .neg e
            | "await" => .pre .await_ e | _ => .try_ e
          some (ex, r)
        | _ => none)
      | "index" =>
        (match readSexpr fuel rest with
        | some (e, r1) =>
          (match readSexpr fuel r1 with
          | some (i, ")" :: r2) => some (.index e i, r2)
          | _ => none)
        | none => none)
      | _ =>
        (match bopOfName (strip head), readSexpr fuel rest with
        | some op, some (l, r1) =>
          (match readSexpr fuel r1 with
          | some (r, ")" :: r2) => some (.bin op l r, r2)
          | _ => none)
        | _, _ => none)
    else if w.startsWith "a" then (w.drop 1).toString.toNat?.map fun n => (.atom n, rest)
    else none
  | _, [] => none

/-- Split `(le_a4_(paren_a1))` into words with `)` as separate words. -/
def sexprWords (s : String) : List String :=
  let spaced := s.replace ")" "_)"
  (spaced.splitOn "_").filter (· ≠ "")

def handleC08 : List String → String
  | ["parse", toks] =>
    let ts := (toks.splitOn ",").foldr (fun t acc => match acc, tokOfName t with
      | some l, some x => some (x :: l) | _, _ => none) (some [])
    (match ts with
    | some ts =>
      (match parse (ts.length * 12 + 24) 0 ts with
      | some (e, []) => showSexpr e
      | some (_, _) => "reject"   -- tokens left over: the statement parser rejects the line
      | none => "reject")
    | none => "bad-op")
  | ["fmt", sx] =>
    let ws := sexprWords sx
    (match readSexpr (ws.length + 2) ws with
    | some (e, []) => ",".intercalate ((fmt e).map nameOfTok)
    | _ => "bad-op")
  | ["rt", sx] =>
    let ws := sexprWords sx
    (match readSexpr (ws.length + 2) ws with
    | some (e, []) =>
      let ts := fmt e
      (match parse (ts.length * 12 + 24) 0 ts with
      | some (e', []) => if e' = e then "same" else "differs"
      | _ => "differs")
    | _ => "bad-op")
  | ["fmtstr", v] =>
    (match parseStr v with
    | some cs => showStr (Incan.Literals.fmtStr cs)
    | none => "bad-op")
  | ["scanstr", t] =>
    (match parseStr t with
    | some cs => (match Incan.Literals.lexStr cs with
      -- the harness lexes the whole line: a quote left over after the literal opens a second literal that the
      -- end of the line leaves unterminated
      | some (v, rest) => if rest.contains '"' then "error" else s!"ok {showStr v} {rest.length}"
      | none => "error")
    | none => "bad-op")
  | ["fmtbytes", v] =>
    (match parseStr v with
    | some cs => showStr ((Incan.Literals.fmtBytes (cs.map Char.toNat)).map Char.ofNat)
    | none => "bad-op")
  | ["scanbytes", t] =>
    (match parseStr t with
    | some cs => (match Incan.Literals.scanBytes (cs.map Char.toNat) with
      | some (v, rest) => if rest.contains 34 then "error" else s!"ok {showStr (v.map Char.ofNat)} {rest.length}"
      | none => "error")
    | none => "bad-op")
  | _ => "bad-op"

end Incan.Driver
