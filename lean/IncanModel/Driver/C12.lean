import IncanModel.Tool.ModuleTree
import IncanModel.Driver.C15
namespace Incan.Driver
open Incan.Cargo Incan.ModuleTree

def parsePath (s : String) : Path := if s == "-" then [] else (s.splitOn "/").map nm

/-- `c12 modtree <path,path,…> <dir>`: what the generator writes for one directory of the module tree. -/
def handleC12 : List String → String
  | ["modtree", paths, dir, _rep] =>
    let ps := (paths.splitOn ",").map parsePath
    let d := parsePath dir
    let kids := childrenOf ps d
    let w := writes ps d
    let car := if kids.isEmpty then "none" else match carrier ps d with
      | .mainRs => "main" | .modRs => "mod" | .ownFile => "own"
    let b := fun (x : Bool) => if x then "1" else "0"
    let files := if d.isEmpty then "- -" else s!"{b w.1} {b (w.2 && !kids.isEmpty)}"
    s!"{files} {car} {",".intercalate (kids.map nameStr)}"
  | _ => "bad-op"

end Incan.Driver
