import IncanModel.Kernel.Pos
import IncanModel.Driver.Util
namespace Incan.Driver
open Incan.Pos

def showOptNat : Option Nat → String
  | some n => s!"some {n}"
  | none => "none"

def handleC19 : List String → String
  | ["o2p", d, off] =>
    (match parseStr d, parseNat off with
    | some doc, some o => let p := offsetToPosition doc o; s!"{p.1} {p.2}"
    | _, _ => "bad-op")
  | ["rt", d, off] =>
    (match parseStr d, parseNat off with
    | some doc, some o => showOptNat (positionToOffset doc (offsetToPosition doc o))
    | _, _ => "bad-op")
  | ["p2o", d, l, c] =>
    (match parseStr d, parseNat l, parseNat c with
    | some doc, some l, some c => showOptNat (positionToOffset doc (l, c))
    | _, _, _ => "bad-op")
  | ["range", d, s, e] =>
    (match parseStr d, parseNat s, parseNat e with
    | some doc, some s, some e =>
      let r := spanToRange doc s e
      s!"{r.start.1} {r.start.2} {r.stop.1} {r.stop.2}"
    | _, _, _ => "bad-op")
  | ["gli", d, off] =>
    (match parseStr d, parseNat off with
    | some doc, some o => let (ln, col, txt) := getLineInfo doc o; s!"{ln} {col} {showStr txt}"
    | _, _ => "bad-op")
  | ["render", d, s, e] =>
    (match parseStr d, parseNat s, parseNat e with
    | some doc, some s, some e =>
      let (ln, col, _) := getLineInfo doc s
      let (sp, ca) := caretLine doc s e
      s!"{ln} {col} {sp} {ca}"
    | _, _, _ => "bad-op")
  | ["renderline", d, s, e] =>
    (match parseStr d, parseNat s, parseNat e with
    | some doc, some s, some e =>
      let (ln, col, txt) := getLineInfo doc s
      let (sp, ca) := caretLine doc s e
      s!"{ln} {col} {sp} {ca} {showStr txt}"
    | _, _, _ => "bad-op")
  | _ => "bad-op"

end Incan.Driver
