import IncanModel.Kernel.Seq
import IncanModel.Driver.Util
namespace Incan.Driver
open Incan.Seq

def showListI64 (xs : List Int64) : String :=
  if xs.isEmpty then "-" else ",".intercalate (xs.map fun x => toString x.toInt)

def iota (n : Nat) : List Int64 := (List.range n).map (fun (k : Nat) => Int64.ofInt (Int.ofNat k))

def coreErr : Err → String
  | .stringIndexOutOfRange => "err IndexOutOfRange"
  | .sliceStepZero => "err SliceStepZero"
  | e => s!"err {e.message}"

/-- `KeyError: '{key}' not found in dict`. -/
def dictGet (m : List (List Char × Nat)) (key : List Char) : Except String Nat :=
  match m.find? (fun kv => kv.1 == key) with
  | some kv => .ok kv.2
  | none => .error s!"KeyError: '{String.ofList key}' not found in dict"

def handleC05 : List String → String
  | ["stridx", s, i] =>
    (match parseStr s, parseI64 i with
    | some s, some i => (match strIndex s i with | .ok c => s!"ok {showStr [c]}" | .error e => s!"panic {e.message}")
    | _, _ => "bad-op")
  | ["corestridx", s, i] =>
    (match parseStr s, parseI64 i with
    | some s, some i => (match strIndex s i with | .ok c => s!"ok {showStr [c]}" | .error e => coreErr e)
    | _, _ => "bad-op")
  | ["strslice", s, a, b, c] =>
    (match parseStr s, parseOptI64 a, parseOptI64 b, parseOptI64 c with
    | some s, some a, some b, some c =>
      (match strSlice s a b c with | .ok r => s!"ok {showStr r}" | .error e => s!"panic {e.message}")
    | _, _, _, _ => "bad-op")
  | ["corestrslice", s, a, b, c] =>
    (match parseStr s, parseOptI64 a, parseOptI64 b, parseOptI64 c with
    | some s, some a, some b, some c =>
      (match strSlice s a b c with | .ok r => s!"ok {showStr r}" | .error e => coreErr e)
    | _, _, _, _ => "bad-op")
  | ["listget", n, i] | ["listgetmut", n, i] =>
    (match parseNat n, parseI64 i with
    | some n, some i => (match listGet (iota n) i with | .ok v => s!"ok {v.toInt}" | .error e => s!"panic {e.message}")
    | _, _ => "bad-op")
  | ["listslice", n, a, b, c] =>
    (match parseNat n, parseOptI64 a, parseOptI64 b, parseOptI64 c with
    | some n, some a, some b, some c =>
      (match listSlice (iota n) a b c with | .ok r => s!"ok {showListI64 r}" | .error e => s!"panic {e.message}")
    | _, _, _, _ => "bad-op")
  | ["range", a, b, c, cap] =>
    (match parseI64 a, parseI64 b, parseI64 c, parseNat cap with
    | some a, some b, some c, some cap =>
      (match range a b c with
      | .error e => s!"panic {e.message}"
      | .ok r =>
        let (vs, fin) := r.collect cap
        s!"ok {showListI64 vs}{if fin then "" else " more"}")
    | _, _, _, _ => "bad-op")
  | ["dictget", ks, k] =>
    let keys := if ks == "_" then some [] else
      (ks.splitOn ";").foldr (fun t acc => match acc, parseStr t with
        | some l, some s => some (s :: l) | _, _ => none) (some [])
    (match keys, parseStr k with
    | some keys, some k =>
      let m := (List.zip keys (List.range keys.length))
      (match dictGet m k with | .ok v => s!"ok {v}" | .error e => s!"panic {e}")
    | _, _ => "bad-op")
  | _ => "bad-op"

end Incan.Driver
