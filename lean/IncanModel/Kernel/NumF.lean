import IncanModel.Kernel.Num
/-
Executable model of the float kernels and the mixed int/float wrappers of `incan_stdlib::num`
(`py_div`, `py_mod`, `py_floor_div` and their `_f64` forms).

`fmod` (Rust's `%` on `f64`, which is exact) is computed from the IEEE-754 bit patterns with integer
arithmetic; `+`, `/`, `floor` and `i64 as f64` use Lean's native `Float` (IEEE binary64).  `Float` is
opaque to Lean's kernel, so nothing in this file is the subject of a theorem: it exists for the
correspondence check.  The exact-arithmetic content of the float kernels is `Kernel/NumExact.lean`.
-/
namespace Incan.NumF
open Incan.Num

structure Dec where
  neg : Bool
  m : Nat
  e : Int
  deriving Repr

def isFinite (x : Float) : Bool :=
  ((x.toBits >>> 52) &&& 0x7ff) != 0x7ff

/-- Decode a finite float into sign, integer mantissa and exponent: `|x| = m * 2^e`. -/
def decode (x : Float) : Dec :=
  let bits := x.toBits
  let neg := (bits >>> 63) != 0
  let ef := ((bits >>> 52) &&& 0x7ff).toNat
  let fr := (bits &&& 0xfffffffffffff).toNat
  if ef == 0 then { neg, m := fr, e := -1074 } else { neg, m := fr + 2^52, e := (ef : Int) - 1075 }

def encode (neg : Bool) (m : Nat) (e : Int) : Float :=
  let v := (Float.ofNat m).scaleB e
  if neg then -v else v

/-- IEEE `fmod` for finite `a` and finite non-zero `b` (exact). -/
def fmod (a b : Float) : Float :=
  let da := decode a
  let db := decode b
  if da.e ≥ db.e then
    let r := (da.m * 2 ^ (da.e - db.e).toNat) % db.m
    encode da.neg r db.e
  else
    let r := da.m % (db.m * 2 ^ (db.e - da.e).toNat)
    encode da.neg r da.e

/-- `py_mod_f64_impl` (identical in `incan_core` and `incan_stdlib`). -/
def modF (a b : Float) : Float :=
  let r := fmod a b
  if (r > 0.0 && b < 0.0) || (r < 0.0 && b > 0.0) then r + b else r

inductive Num where
  | int (i : Int64)
  | float (f : Float)

def Num.toFloat : Num → Float
  | .int i => Float.ofInt i.toInt
  | .float f => f

def Num.isZero : Num → Bool
  | .int i => i == 0
  | .float f => f == 0.0

inductive Res where
  | int (i : Int64)
  | float (f : Float)
  | panic (p : Panic)

/-- `py_div`: always float; zero test on the *converted* divisor. -/
def pyDiv (l r : Num) : Res :=
  if r.toFloat == 0.0 then .panic .zeroDivision else .float (l.toFloat / r.toFloat)

/-- `py_mod` over the four operand-type pairs. -/
def pyMod (l r : Num) : Res :=
  if r.isZero then .panic .zeroDivision else
  match l, r with
  | .int a, .int b => match modStd a b with | .ok v => .int v | .error p => .panic p
  | l, r => .float (modF l.toFloat r.toFloat)

/-- `py_floor_div` over the four operand-type pairs. -/
def pyFloorDiv (l r : Num) : Res :=
  if r.isZero then .panic .zeroDivision else
  match l, r with
  | .int a, .int b => match floorDivStd a b with | .ok v => .int v | .error p => .panic p
  | l, r => .float ((l.toFloat / r.toFloat).floor)

end Incan.NumF
