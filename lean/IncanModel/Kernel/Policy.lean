/-
Model of the numeric-type policy and of its four consumers.

Mirrors:
  crates/incan_core/src/lib.rs          PowExponentKind::from_literal_info, result_numeric_type, needs_float_promotion
  src/numeric_adapters.rs               pow_exponent_kind_from_ast / _from_ir, extract_int_literal
  src/frontend/typechecker/check_expr/ops.rs   check_binary, check_unary (numeric part)
  src/backend/ir/lower/expr.rs          Binary / Unary / Paren arms, pow_exponent_kind (AST based)
  src/backend/ir/lower/types.rs         binary_result_type
  src/backend/ir/conversions.rs         determine_binop_plan (IR based exponent kind), BinOpEmitKind
  src/backend/ir/emit/expressions/calls.rs   emit_binop_expr (which helper / method / infix is emitted)
-/
namespace Incan.Policy

inductive NumTy where | int | float
  deriving DecidableEq, Repr

inductive NumOp where
  | add | sub | mul | div | floorDiv | mod | pow | eq | notEq | lt | ltEq | gt | gtEq
  deriving DecidableEq, Repr

inductive PowKind where | nonNegLit | negLit | variable | float
  deriving DecidableEq, Repr

/-- `PowExponentKind::from_literal_info`. -/
def fromLiteralInfo (rhsIsFloat : Bool) (lit : Option Int) : PowKind :=
  if rhsIsFloat then .float
  else match lit with
    | some v => if v ≥ 0 then .nonNegLit else .negLit
    | none => .variable

/-- `result_numeric_type`. -/
def resultNumericType (op : NumOp) (l r : NumTy) (k : Option PowKind) : NumTy :=
  match op with
  | .div => .float
  | .floorDiv | .mod | .add | .sub | .mul => if l = .float ∨ r = .float then .float else .int
  | .pow =>
    if l = .int ∧ r = .int then
      match k with
      | some .nonNegLit => .int
      | _ => .float
    else .float
  | .eq | .notEq | .lt | .ltEq | .gt | .gtEq => if l = .float ∨ r = .float then .float else .int

/-- `needs_float_promotion`. -/
def needsFloatPromotion (op : NumOp) (l r : NumTy) (k : Option PowKind) : Bool × Bool :=
  if resultNumericType op l r k = .float then (l = .int, r = .int) else (false, false)

def NumOp.isComparison : NumOp → Bool
  | .eq | .notEq | .lt | .ltEq | .gt | .gtEq => true
  | _ => false

/-! ### Source expressions (numeric fragment) -/

inductive Expr where
  | intLit (n : Nat)
  | floatLit
  | var (ty : NumTy)
  | neg (e : Expr)
  | paren (e : Expr)
  | bin (op : NumOp) (l r : Expr)
  deriving DecidableEq, Repr

/-- Result types of the checker: numeric or bool (comparisons). -/
inductive Ty where | int | float | bool | unknown
  deriving DecidableEq, Repr

def Ty.ofNum : NumTy → Ty | .int => .int | .float => .float
def Ty.toNum : Ty → Option NumTy | .int => some .int | .float => some .float | _ => none

def stripParens : Expr → Expr
  | .paren e => stripParens e
  | e => e

/-- `extract_int_literal` (identical copies in numeric_adapters.rs and lower/expr.rs); under a unary
minus it looks through parentheses (`while let Expr::Paren(p) = ...`). -/
def extractIntLiteralAst : Expr → Option Int
  | .intLit n => some n
  | .neg e => match stripParens e with
    | .intLit n => some (-(n : Int))
    | _ => none
  | .paren e => extractIntLiteralAst e
  | _ => none

def powKindAst (rhs : Expr) (rhsTy : Ty) : PowKind :=
  fromLiteralInfo (rhsTy = .float) (extractIntLiteralAst rhs)

/-- The checker's arithmetic / comparison rule for two already-typed operands. -/
def checkBin (op : NumOp) (lt rt : Ty) (rhs : Expr) : Ty :=
  if op.isComparison then
    .bool
  else match lt.toNum, rt.toNum with
    | some l, some r =>
      let k := if op = .pow then some (powKindAst rhs rt) else none
      Ty.ofNum (resultNumericType op l r k)
    | some n, none | none, some n => if lt = .unknown ∨ rt = .unknown then Ty.ofNum n else .unknown
    | none, none => .unknown

/-- `check_expr` on the numeric fragment (`check_binary`, `check_unary`, literals, `Paren`). -/
def checkerType : Expr → Ty
  | .intLit _ => .int
  | .floatLit => .float
  | .var t => Ty.ofNum t
  | .neg e =>
    match checkerType e with
    | .int | .unknown => .int
    | .float => .float
    | .bool => .unknown
  | .paren e => checkerType e
  | .bin op l r => checkBin op (checkerType l) (checkerType r) r

/-! ### IR -/

inductive Ir where
  | int (n : Nat)
  | float
  | var (ty : NumTy)
  | neg (e : Ir) (ty : Ty)
  | bin (op : NumOp) (l r : Ir) (ty : Ty)
  deriving DecidableEq, Repr

def Ir.ty : Ir → Ty
  | .int _ => .int
  | .float => .float
  | .var t => Ty.ofNum t
  | .neg _ t => t
  | .bin _ _ _ t => t

/-- `binary_result_type`. -/
def binaryResultType (lt rt : Ty) (op : NumOp) (k : Option PowKind) : Ty :=
  if op.isComparison then .bool
  else match lt.toNum, rt.toNum with
    | some l, some r => Ty.ofNum (resultNumericType op l r k)
    | _, _ => lt

/-- Lowering: `Paren` is dropped; the exponent kind is computed from the **AST** operand. -/
def lower : Expr → Ir
  | .intLit n => .int n
  | .floatLit => .float
  | .var t => .var t
  | .neg e => let o := lower e; .neg o o.ty
  | .paren e => lower e
  | .bin op l r =>
    let li := lower l
    let ri := lower r
    let k := if op = .pow then some (fromLiteralInfo (ri.ty = .float) (extractIntLiteralAst r)) else none
    .bin op li ri (binaryResultType li.ty ri.ty op k)

def lowerType (e : Expr) : Ty := (lower e).ty

/-- `pow_exponent_kind_from_ir`: classification from the **lowered** operand. -/
def extractIntLiteralIr : Ir → Option Int
  | .int n => some n
  | .neg (.int n) _ => some (-(n : Int))
  | _ => none

def powKindIr (rhs : Ir) : PowKind := fromLiteralInfo (rhs.ty = .float) (extractIntLiteralIr rhs)

inductive EmitKind where
  | infix
  | powInt            -- `l.pow(r as u32)`
  | powFloat          -- `l.powf(r)`
  | modI64 | modF64 | modGeneric
  | floorDivI64 | floorDivF64 | floorDivGeneric
  | pyDiv
  deriving DecidableEq, Repr

structure Plan where
  lhsToFloat : Bool
  rhsToFloat : Bool
  resultTy : Ty
  emit : EmitKind
  deriving DecidableEq, Repr

/-- `determine_binop_plan` on numeric operands. -/
def determinePlan (op : NumOp) (l r : Ir) : Plan :=
  let k := if op = .pow then some (powKindIr r) else none
  let (lc, rc, ty) :=
    match l.ty.toNum, r.ty.toNum with
    | some a, some b =>
      let p := needsFloatPromotion op a b k
      (p.1, p.2, Ty.ofNum (resultNumericType op a b k))
    | _, _ => (false, false, l.ty)
  let emit :=
    match op with
    | .pow => if ty = .int then .powInt else .powFloat
    | .mod => match ty with | .int => .modI64 | .float => .modF64 | _ => .modGeneric
    | .floorDiv => match ty with | .int => .floorDivI64 | .float => .floorDivF64 | _ => .floorDivGeneric
    | .div => .pyDiv
    | _ => .infix
  { lhsToFloat := lc, rhsToFloat := rc, resultTy := ty, emit := emit }

/-- Rust type of an operand after the plan's conversion (`(x as f64)`). -/
def convTy (t : Ty) (toFloat : Bool) : Ty := if toFloat then .float else t

/-- Rust type of the emitted binary expression, `none` when rustc rejects it
(signatures: `py_mod_i64(i64,i64)->i64`, `py_mod_f64(f64,f64)->f64`, `py_floor_div_*` alike,
`py_div<L,R>(L,R)->f64`, `i64::pow(u32)->i64`, `f64::powf(f64)->f64`, infix arithmetic needs equal
operand types, comparisons give `bool`). -/
def rustTypeOfBin (op : NumOp) (p : Plan) (lt rt : Ty) : Option Ty :=
  let l := convTy lt p.lhsToFloat
  let r := convTy rt p.rhsToFloat
  match p.emit with
  | .infix => if l = r ∧ (l = .int ∨ l = .float) then some (if op.isComparison then .bool else l) else none
  | .powInt => if l = .int ∧ r = .int then some .int else none
  | .powFloat => if l = .float ∧ r = .float then some .float else none
  | .modI64 | .floorDivI64 => if l = .int ∧ r = .int then some .int else none
  | .modF64 | .floorDivF64 => if l = .float ∧ r = .float then some .float else none
  | .modGeneric | .floorDivGeneric => none
  | .pyDiv => if (l = .int ∨ l = .float) ∧ (r = .int ∨ r = .float) then some .float else none

/-- Rust type of the whole emitted expression (operands typed recursively). -/
def rustType : Ir → Option Ty
  | .int _ => some .int
  | .float => some .float
  | .var t => some (Ty.ofNum t)
  | .neg e _ => rustType e
  | .bin op l r _ =>
    match rustType l, rustType r with
    | some lt, some rt => rustTypeOfBin op (determinePlan op l r) lt rt
    | _, _ => none

/-! ### The documented table (reference page), as a specification -/

/-- Is the exponent, as written in the source, a non-negative integer literal? -/
def isNonNegIntLiteral : Expr → Bool
  | .intLit _ => true
  | .paren e => isNonNegIntLiteral e
  | .neg e => match stripParens e with
    | .intLit n => n = 0
    | _ => false
  | _ => false

/-- The documented rule for one operator, given the documented types of its operands. -/
def specBin (op : NumOp) (lt rt : Ty) (expIsNonNegLit : Bool) : Ty :=
  if op.isComparison then .bool
  else match op with
    | .div => .float
    | .pow => if lt = .int ∧ rt = .int ∧ expIsNonNegLit then .int else .float
    | _ => if lt = .float ∨ rt = .float then .float else .int

def specType : Expr → Ty
  | .intLit _ => .int
  | .floatLit => .float
  | .var t => Ty.ofNum t
  | .neg e => specType e
  | .paren e => specType e
  | .bin op l r => specBin op (specType l) (specType r) (isNonNegIntLiteral r)

@[simp] theorem Ir.ty_int (n : Nat) : (Ir.int n).ty = .int := rfl
@[simp] theorem Ir.ty_float : Ir.float.ty = .float := rfl
@[simp] theorem Ir.ty_var (t : NumTy) : (Ir.var t).ty = Ty.ofNum t := rfl
@[simp] theorem Ir.ty_neg (e : Ir) (t : Ty) : (Ir.neg e t).ty = t := rfl
@[simp] theorem Ir.ty_bin (op : NumOp) (l r : Ir) (t : Ty) : (Ir.bin op l r t).ty = t := rfl

/-- Well-formed numeric expressions: operands of arithmetic and unary minus are numeric (not bool). -/
def Expr.wf : Expr → Bool
  | .intLit _ | .floatLit | .var _ => true
  | .neg e => e.wf && specType e != .bool
  | .paren e => e.wf
  | .bin _ l r => l.wf && r.wf && specType l != .bool && specType r != .bool

end Incan.Policy
