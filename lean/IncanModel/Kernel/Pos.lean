/-
Model of the byte-offset <-> position conversions.

Mirrors:
  src/lsp/diagnostics.rs              offset_to_position, position_to_offset, span_to_range
  crates/incan_syntax/src/diagnostics.rs   get_line_info

A document is a `List Char`; `Char.utf8Size` is `char::len_utf8`; `char_indices()` is the running sum
of sizes.  `u32` line/character counters are modelled as `Nat` (documents below 4 GiB), and
`start + 1` in `span_to_range` as `Nat` addition (offsets below `usize::MAX`).
-/
namespace Incan.Pos

def utf8Len : List Char → Nat
  | [] => 0
  | c :: cs => c.utf8Size + utf8Len cs

abbrev Position := Nat × Nat     -- (line, character), 0-based

/-- One iteration of the `for (i, c) in source.char_indices()` body of `offset_to_position`. -/
def step (p : Position) (c : Char) : Position :=
  if c = '\n' then (p.1 + 1, 0) else (p.1, p.2 + 1)

/-- The loop of `offset_to_position`: `i` is the byte index of the head of the list. -/
def o2pGo : List Char → Nat → Nat → Position → Position
  | [], _, _, p => p
  | c :: cs, i, off, p => if i ≥ off then p else o2pGo cs (i + c.utf8Size) off (step p c)

def offsetToPosition (doc : List Char) (offset : Nat) : Position :=
  o2pGo doc 0 (min offset (utf8Len doc)) (0, 0)

/-- The loop of `position_to_offset`, with its three mutable variables and the running index. -/
def p2oGo : List Char → (i line col offset : Nat) → Position → Option Nat
  | [], _, line, col, offset, pos => if line = pos.1 ∧ col = pos.2 then some offset else none
  | c :: cs, i, line, col, _, pos =>
    if line = pos.1 ∧ col = pos.2 then some i
    else if c = '\n' then
      if line = pos.1 then some i
      else p2oGo cs (i + c.utf8Size) (line + 1) 0 (i + c.utf8Size) pos
    else p2oGo cs (i + c.utf8Size) line (col + 1) (i + c.utf8Size) pos

def positionToOffset (doc : List Char) (pos : Position) : Option Nat :=
  p2oGo doc 0 0 0 0 pos

structure Range where
  start : Position
  stop : Position
  deriving Repr, DecidableEq

def spanToRange (doc : List Char) (start stop : Nat) : Range :=
  { start := offsetToPosition doc start, stop := offsetToPosition doc (max stop (start + 1)) }

/-- Lexicographic order on positions (what an editor means by "before"). -/
def Position.le (a b : Position) : Prop := a.1 < b.1 ∨ (a.1 = b.1 ∧ a.2 ≤ b.2)
def Position.lt (a b : Position) : Prop := a.1 < b.1 ∨ (a.1 = b.1 ∧ a.2 < b.2)

instance (a b : Position) : Decidable (Position.le a b) := by unfold Position.le; infer_instance
instance (a b : Position) : Decidable (Position.lt a b) := by unfold Position.lt; infer_instance

/-- Loop of `get_line_info`: returns `(line_num, line_start, rest_at_line_start)`. -/
def gliGo : List Char → (i off lineNum lineStart : Nat) → List Char → Nat × Nat × List Char
  | [], _, _, ln, ls, rest => (ln, ls, rest)
  | c :: cs, i, off, ln, ls, rest =>
    if i ≥ off then (ln, ls, rest)
    else if c = '\n' then gliGo cs (i + c.utf8Size) off (ln + 1) (i + 1) cs
    else gliGo cs (i + c.utf8Size) off ln ls rest

/-- Characters of a line (whose first byte is at `pos`) that start before byte offset `off`. -/
def charsBefore : List Char → (pos off : Nat) → Nat
  | [], _, _ => 0
  | c :: cs, pos, off => if pos < off then 1 + charsBefore cs (pos + c.utf8Size) off else 0

/-- Characters of a line (first byte at `pos`) that start inside the byte range `[a, b)`. -/
def charsWithin : List Char → (pos a b : Nat) → Nat
  | [], _, _, _ => 0
  | c :: cs, pos, a, b => (if a ≤ pos ∧ pos < b then 1 else 0) + charsWithin cs (pos + c.utf8Size) a b

/-- `get_line_info`: 1-based line, 1-based column **in characters** (since the `fix:` commit; it was a byte count
before: `getLineInfoBytes`), and the text of that line. -/
def getLineInfo (doc : List Char) (offset : Nat) : Nat × Nat × List Char :=
  let off := min offset (utf8Len doc)
  let (ln, ls, rest) := gliGo doc 0 off 1 0 doc
  let line := rest.takeWhile (· ≠ '\n')
  (ln, charsBefore line ls off + 1, line)

/-- The column as it was computed before the fix: `offset - line_start + 1`. -/
def getLineInfoBytes (doc : List Char) (offset : Nat) : Nat × Nat × List Char :=
  let off := min offset (utf8Len doc)
  let (ln, ls, rest) := gliGo doc 0 off 1 0 doc
  (ln, off - ls + 1, rest.takeWhile (· ≠ '\n'))

/-- `format_error`: number of spaces before the caret and number of carets: one per character of the span that
lies on the reported line. -/
def caretLine (doc : List Char) (start stop : Nat) : Nat × Nat :=
  let off := min start (utf8Len doc)
  let (_, ls, rest) := gliGo doc 0 off 1 0 doc
  let line := rest.takeWhile (· ≠ '\n')
  let colNum := charsBefore line ls off + 1
  let underline := if stop > start then max (charsWithin line ls start stop) 1 else 1
  (colNum - 1, underline)

end Incan.Pos
