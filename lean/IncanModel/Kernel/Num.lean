/-
Model of the integer arithmetic kernels of incan.

Mirrors (as written, two separate copies):
  crates/incan_core/src/lib.rs      py_mod_i64_impl, py_floor_div_i64_impl
  crates/incan_stdlib/src/num.rs    py_mod_i64_impl, py_floor_div_i64_impl,
                                    py_mod / py_floor_div / py_div wrappers (zero test + raise)

Rust's `/` and `%` on i64 panic on a zero divisor and on (MIN, -1) in every build profile;
`wrapping_rem` does not.  `r + b` and `q - 1` are modelled as wrapping (release profile, which is what
`incan build` uses); the theorems show they never wrap.
-/
deriving instance DecidableEq for Except

namespace Incan.Num

inductive Panic where
  | divOverflow      -- "attempt to divide with overflow"
  | remOverflow      -- "attempt to calculate the remainder with overflow"
  | divByZero        -- "attempt to divide by zero"
  | remByZero        -- "attempt to calculate the remainder with a divisor of zero"
  | zeroDivision     -- "ZeroDivisionError: float division by zero"
  deriving DecidableEq, Repr

def Panic.message : Panic → String
  | .divOverflow => "attempt to divide with overflow"
  | .remOverflow => "attempt to calculate the remainder with overflow"
  | .divByZero => "attempt to divide by zero"
  | .remByZero => "attempt to calculate the remainder with a divisor of zero"
  | .zeroDivision => "ZeroDivisionError: float division by zero"

/-- Rust `a / b` on `i64`. -/
def rustDiv (a b : Int64) : Except Panic Int64 :=
  if b = 0 then .error .divByZero
  else if a = Int64.minValue ∧ b = -1 then .error .divOverflow
  else .ok (a / b)

/-- Rust `a % b` on `i64`. -/
def rustRem (a b : Int64) : Except Panic Int64 :=
  if b = 0 then .error .remByZero
  else if a = Int64.minValue ∧ b = -1 then .error .remOverflow
  else .ok (a % b)

/-- Rust `a.wrapping_rem(b)` (panics only on zero). -/
def wrappingRem (a b : Int64) : Except Panic Int64 :=
  if b = 0 then .error .remByZero else .ok (a % b)

/-- `incan_core::py_mod_i64_impl`. -/
def modCore (a b : Int64) : Except Panic Int64 := do
  let r ← wrappingRem a b
  if (r > 0 ∧ b < 0) ∨ (r < 0 ∧ b > 0) then pure (r + b) else pure r

/-- `incan_stdlib::num::py_mod_i64_impl` (textually the same body today). -/
def modStd (a b : Int64) : Except Panic Int64 := do
  let r ← wrappingRem a b
  if (r > 0 ∧ b < 0) ∨ (r < 0 ∧ b > 0) then pure (r + b) else pure r

/-- `incan_core::py_floor_div_i64_impl`. -/
def floorDivCore (a b : Int64) : Except Panic Int64 := do
  let q ← rustDiv a b
  let r ← rustRem a b
  if (r > 0 ∧ b < 0) ∨ (r < 0 ∧ b > 0) then pure (q - 1) else pure q

/-- `incan_stdlib::num::py_floor_div_i64_impl` (different control flow). -/
def floorDivStd (a b : Int64) : Except Panic Int64 := do
  let q ← rustDiv a b
  let r ← rustRem a b
  if r = 0 then pure q
  else if b > 0 then (if r < 0 then pure (q - 1) else pure q)
  else if r > 0 then pure (q - 1)
  else pure q

/-- Public wrappers `py_mod_i64` / `py_mod::<i64,i64>`: zero test first. -/
def pyModI64 (a b : Int64) : Except Panic Int64 :=
  if b = 0 then .error .zeroDivision else modStd a b

/-- Public wrappers `py_floor_div_i64` / `py_floor_div::<i64,i64>`. -/
def pyFloorDivI64 (a b : Int64) : Except Panic Int64 :=
  if b = 0 then .error .zeroDivision else floorDivStd a b

end Incan.Num
