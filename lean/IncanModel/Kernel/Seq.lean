/-
Model of indexing, slicing and `range`.

Mirrors (two copies of the slice code, as in the repository):
  crates/incan_core/src/strings.rs        normalize_index, str_char_at, str_slice
  crates/incan_stdlib/src/collections.rs  list_get, list_slice
  crates/incan_stdlib/src/iter.rs         PyRange::next, range
  crates/incan_stdlib/src/strings.rs      str_index / str_slice wrappers (raise)

Indices are `Int64` (Rust `i64`); `len as i64` assumes fewer than 2^63 elements.  The loop step is
`i64::saturating_add` (the code after the `fix:` commit recorded in known_findings.json).
`while` loops take fuel `len + 1` (slices) — the theorems show that the fuel is never exhausted.
-/
namespace Incan.Seq

inductive Err where
  | stringIndexOutOfRange                      -- "IndexError: string index out of range"
  | listIndexOutOfRange (index : Int64) (len : Nat)  -- "IndexError: index {i} out of range for list of length {n}"
  | sliceStepZero                              -- "ValueError: slice step cannot be zero"
  | rangeStepZero                              -- "ValueError: range() arg 3 must not be zero"
  deriving DecidableEq, Repr

def Err.message : Err → String
  | .stringIndexOutOfRange => "IndexError: string index out of range"
  | .listIndexOutOfRange i n => s!"IndexError: index {i.toInt} out of range for list of length {n}"
  | .sliceStepZero => "ValueError: slice step cannot be zero"
  | .rangeStepZero => "ValueError: range() arg 3 must not be zero"

/-- `i64::saturating_add`. -/
def satAdd (a b : Int64) : Int64 :=
  let s := a.toInt + b.toInt
  if s > 9223372036854775807 then Int64.maxValue
  else if s < -9223372036854775808 then Int64.minValue
  else a + b

/-- `Ord::clamp` (callers guarantee `lo ≤ hi`). -/
def clamp (x lo hi : Int64) : Int64 := if x < lo then lo else if x > hi then hi else x

def lenI64 (xs : List α) : Int64 := Int64.ofInt xs.length

/-- `list.get(i as usize)`: a negative `i` becomes a huge `usize`, hence `None`. -/
def getAt (xs : List α) (i : Int64) : Option α :=
  if i < 0 then none else xs[i.toInt.toNat]?

/-- `normalize_index` of `incan_core::strings`. -/
def normalizeIndex (len : Nat) (idx : Int64) : Option Nat :=
  if len = 0 then none else
  let lenI : Int64 := Int64.ofInt len
  let i := if idx < 0 then idx + lenI else idx
  if i < 0 ∨ i ≥ lenI then none else some i.toInt.toNat

/-- `str_char_at` + the raising wrapper `str_index`. -/
def strIndex (s : List Char) (idx : Int64) : Except Err Char :=
  match normalizeIndex s.length idx with
  | none => .error .stringIndexOutOfRange
  | some pos => match s[pos]? with
    | some c => .ok c
    | none => .error .stringIndexOutOfRange   -- `.expect("index normalized to bounds")`: unreachable

/-- `list_get`. -/
def listGet (xs : List α) (index : Int64) : Except Err α :=
  let lenI := lenI64 xs
  let i := if index < 0 then index + lenI else index
  if i < 0 ∨ i ≥ lenI then .error (.listIndexOutOfRange index xs.length)
  else match xs[i.toInt.toNat]? with
    | some v => .ok v
    | none => .error (.listIndexOutOfRange index xs.length)   -- unreachable after the bounds check

/-- Start/end normalisation shared (textually duplicated) by `str_slice` and `list_slice`. -/
def sliceBounds (len : Int64) (start stop : Option Int64) (step : Int64) : Int64 × Int64 :=
  let defaultStart := if step > 0 then 0 else len - 1
  let defaultEnd := if step > 0 then len else -1
  let s0 := start.getD defaultStart
  let e0 := stop.getD defaultEnd
  let s1 := if s0 < 0 then s0 + len else s0
  let e1 := if stop.isSome ∧ e0 < 0 then e0 + len else e0
  if step > 0 then (clamp s1 0 len, clamp e1 0 len)
  else (clamp s1 (-1) (len - 1), clamp e1 (-1) (len - 1))

/-- `while i < end { push(get(i)); i = i.saturating_add(step) }`. -/
def loopUp (xs : List α) (stop step : Int64) : Nat → Int64 → List α
  | 0, _ => []
  | f + 1, i => if i < stop then (getAt xs i).toList ++ loopUp xs stop step f (satAdd i step) else []

/-- `while i > end { push(get(i)); i = i.saturating_add(step) }` (negative step). -/
def loopDown (xs : List α) (stop step : Int64) : Nat → Int64 → List α
  | 0, _ => []
  | f + 1, i => if i > stop then (getAt xs i).toList ++ loopDown xs stop step f (satAdd i step) else []

/-- `list_slice` (`incan_stdlib::collections`). -/
def listSlice (xs : List α) (start stop step : Option Int64) : Except Err (List α) :=
  let step := step.getD 1
  if step = 0 then .error .sliceStepZero else
  let (s, e) := sliceBounds (lenI64 xs) start stop step
  if step > 0 then .ok (loopUp xs e step (xs.length + 1) s)
  else .ok (loopDown xs e step (xs.length + 1) s)

/-- `str_slice` (`incan_core::strings`), the second copy of the same code over `Vec<char>`. -/
def strSlice (s : List Char) (start stop step : Option Int64) : Except Err (List Char) :=
  let step := step.getD 1
  if step = 0 then .error .sliceStepZero else
  let (st, e) := sliceBounds (lenI64 s) start stop step
  if step > 0 then .ok (loopUp s e step (s.length + 1) st)
  else .ok (loopDown s e step (s.length + 1) st)

/-- `PyRange`. -/
structure PyRange where
  cur : Int64
  stop : Int64
  step : Int64
  deriving Repr

/-- `PyRange::next`. -/
def PyRange.next (r : PyRange) : Option (Int64 × PyRange) :=
  if r.step > 0 then
    if r.cur ≥ r.stop then none else some (r.cur, { r with cur := satAdd r.cur r.step })
  else
    if r.cur ≤ r.stop then none else some (r.cur, { r with cur := satAdd r.cur r.step })

/-- `range(start, end, step)`. -/
def range (start stop step : Int64) : Except Err PyRange :=
  if step = 0 then .error .rangeStepZero else .ok { cur := start, stop := stop, step := step }

/-- Drain the iterator, at most `fuel` items. Returns the items and whether it finished. -/
def PyRange.collect : Nat → PyRange → List Int64 × Bool
  | 0, r => ([], r.next.isNone)
  | f + 1, r => match r.next with
    | none => ([], true)
    | some (v, r') => let (vs, fin) := PyRange.collect f r'; (v :: vs, fin)

end Incan.Seq
