/-
List comprehensions `[elem(x) for x in xs if cond(x)]` as the emitter builds them (`emit_list_comp`,
src/backend/ir/emit/expressions/comprehensions.rs): filter on the loop variable first, then map.
Frozen (const) sets (`FrozenSet::contains`, crates/incan_stdlib/src/frozen.rs): a linear scan over the elements in
the order the literal wrote them.
-/
namespace Incan.Comp

/-- What the source means (Python): visit the elements in order, keep those whose *loop variable* passes the
condition, collect the element expression. -/
def meaning {α β : Type} (xs : List α) (cond : α → Bool) (elem : α → β) : List β :=
  match xs with
  | [] => []
  | x :: rest => if cond x then elem x :: meaning rest cond elem else meaning rest cond elem

/-- What is emitted: `.filter(cond).map(elem)`. -/
def emitted {α β : Type} (xs : List α) (cond : α → Bool) (elem : α → β) : List β := (xs.filter cond).map elem

/-- The seeded order (C01-8): `.map(elem).filter(cond)` — the condition sees the mapped value. -/
def mapThenFilter {α : Type} (xs : List α) (cond : α → Bool) (elem : α → α) : List α := (xs.map elem).filter cond

/-- Frozen set membership as implemented: a scan in literal order. -/
def contains {α : Type} [BEq α] (data : List α) (x : α) : Bool := data.any (· == x)

/-- Bisection over the same data (the seeded variant C06-8), with fuel = length. -/
def bisect (data : Array Int) (x : Int) : Nat → Nat → Nat → Bool
  | 0, _, _ => false
  | fuel + 1, lo, hi =>
    if lo < hi then
      let mid := (lo + hi) / 2
      match data[mid]? with
      | some v => if v == x then true else if v < x then bisect data x fuel (mid + 1) hi else bisect data x fuel lo mid
      | none => false
    else false

def containsBisect (data : List Int) (x : Int) : Bool := bisect data.toArray x (data.length + 1) 0 data.length

end Incan.Comp
