/-
Core of the compiler's statement/expression translation (C01, C02).

Source programs (typed ASTs of a documented fragment: int / bool / str / List[int] values, all arithmetic,
comparison and logical operators, len / indexing / concatenation / append, user functions, let / mut / assignment /
compound assignment, if–elif–else, while, for over range and over lists, break / continue / return, print)
get their documented (Python-like) meaning from the interpreter `exec`.

`desugar` mirrors what lowering + emission do to the *shape* of a program before rustc sees it
(src/backend/ir/lower/stmt.rs, src/backend/ir/emit/statements.rs, emit/expressions/*):
  * an `elif` chain becomes `if … else { if … else { … } }`           (lower_statement, Statement::If)
  * `x op= e` becomes `x = x op e`                                     (CompoundAssignment arm)
  * parentheses are dropped                                            (lower_expr, Paren arm)
  * `//`, `%`, string comparison / concatenation, indexing, `len`, `range` become calls of the stdlib
    helpers — in the model these are the same nodes, whose meaning IS the helper's (C04/C05 tie the helpers)
The restructured program is in the sub-language whose Rust meaning is the interpreter's (nested if/else,
while, for, assignment: trusted, and validated by running the compiled programs).
-/
namespace Incan.Core

inductive AOp where | add | sub | mul | floorDiv | mod
deriving Repr, DecidableEq
inductive COp where | eq | ne | lt | le | gt | ge
deriving Repr, DecidableEq

inductive E where
  | int (n : Int)
  | bool (b : Bool)
  | str (s : List Char)
  | list (ns : List Int)                 -- list literal of integer literals
  | var (x : String)
  | neg (e : E)
  | not_ (e : E)
  | arith (op : AOp) (l r : E)
  | cmp (op : COp) (l r : E)
  | and_ (l r : E)
  | or_ (l r : E)
  | concat (l r : E)
  | len (e : E)
  | index (xs i : E)
  | call1 (f : String) (a : E)           -- user function of one argument
  | call2 (f : String) (a b : E)         -- user function of two arguments (evaluated left to right)
  | paren (e : E)
deriving Repr

mutual
  inductive S where
    | letS (isMut : Bool) (x : String) (e : E)
    | assign (x : String) (e : E)
    | aug (x : String) (op : AOp) (e : E)
    | ifS (c : E) (thn : Blk) (els : Else)
    | whileS (c : E) (body : Blk)
    | forRange (x : String) (lo hi : E) (body : Blk)
    | forList (x : String) (xs : E) (body : Blk)
    | append (x : String) (e : E)
    | ret (e : E)
    | print (e : E)
    | print2 (a b : E)                   -- `print(a, b)`: both values on one line, separated by a space
    | exprS (e : E)
    | brk
    | cont
  inductive Blk where
    | nil
    | cons (s : S) (rest : Blk)
  inductive Else where
    | none
    | elif (c : E) (thn : Blk) (rest : Else)
    | else_ (body : Blk)
end

inductive V where
  | int (n : Int) | bool (b : Bool) | str (s : List Char) | list (ns : List Int) | unit
deriving Repr, DecidableEq

inductive Stop where
  | zeroDivision | indexError | fuel | stuck
deriving Repr, DecidableEq

/-- Result of a computation: a value (or the reason it stopped) and everything printed so far, oldest first. -/
inductive R (α : Type) where
  | ok (a : α) (out : List String)
  | stop (why : Stop) (out : List String)
deriving Repr

def R.bind {α β : Type} (r : R α) (f : α → List String → R β) : R β :=
  match r with
  | .ok a out => f a out
  | .stop w out => .stop w out

abbrev Env := List (String × V)

def Env.get (env : Env) (x : String) : Option V := (env.find? (·.1 == x)).map (·.2)

def Env.set (env : Env) (x : String) (v : V) : Env :=
  if env.any (·.1 == x) then env.map (fun p => if p.1 == x then (x, v) else p) else (x, v) :: env

def showV : V → String
  | .int n => toString n
  | .bool b => if b then "true" else "false"
  | .str s => String.ofList s
  | .list ns => "[" ++ ", ".intercalate (ns.map toString) ++ "]"
  | .unit => "()"

/-- `py_floor_div` / `py_mod` on mathematical integers (C04 proves the i64 kernels compute these). -/
def arith (op : AOp) (a b : Int) : Except Stop Int :=
  match op with
  | .add => .ok (a + b)
  | .sub => .ok (a - b)
  | .mul => .ok (a * b)
  | .floorDiv => if b = 0 then .error .zeroDivision else .ok (Int.fdiv a b)
  | .mod => if b = 0 then .error .zeroDivision else .ok (Int.fmod a b)

/-- Lexicographic order of strings by code point = `str::cmp` (byte order of UTF-8). -/
def strCmp : List Char → List Char → Ordering
  | [], [] => .eq
  | [], _ :: _ => .lt
  | _ :: _, [] => .gt
  | a :: as, b :: bs => if a.toNat < b.toNat then .lt else if b.toNat < a.toNat then .gt else strCmp as bs

/-- The stdlib comparison helpers as written: `str_lt = cmp.is_lt()`, `str_le = !cmp.is_gt()`, … -/
def strRel (op : COp) (a b : List Char) : Bool :=
  let c := strCmp a b
  match op with
  | .eq => c == .eq
  | .ne => c != .eq
  | .lt => c == .lt
  | .le => !(c == .gt)
  | .gt => c == .gt
  | .ge => !(c == .lt)

def intRel (op : COp) (a b : Int) : Bool :=
  match op with
  | .eq => a == b | .ne => a != b | .lt => a < b | .le => a ≤ b | .gt => a > b | .ge => a ≥ b

/-- Python indexing of a list (negative indices count from the end). -/
def listIndex (ns : List Int) (i : Int) : Except Stop Int :=
  let j := if i < 0 then i + ns.length else i
  if j < 0 ∨ j ≥ ns.length then .error .indexError
  else match ns[j.toNat]? with
    | some v => .ok v
    | none => .error .indexError

/-- `range(lo, hi)` with step 1. -/
def rangeList (lo hi : Int) : List Int :=
  (List.range (hi - lo).toNat).map fun (k : Nat) => lo + Int.ofNat k

/-- Control flow out of a statement. -/
inductive Flow where
  | next | brk | cont | ret (v : V)
deriving Repr

/-- An arithmetic operator applied to two values. -/
def arithV (op : AOp) (a b : V) (out : List String) : R V :=
  match a, b with
  | .int x, .int y => (match arith op x y with
    | .ok v => .ok (.int v) out
    | .error w => .stop w out)
  | _, _ => .stop .stuck out

section
variable (call1 : String → V → List String → R V) (call2 : String → V → V → List String → R V)

/-- Expression evaluation, left to right, threading the output. -/
def evalE (env : Env) (out : List String) : E → R V
  | .int n => .ok (.int n) out
  | .bool b => .ok (.bool b) out
  | .str s => .ok (.str s) out
  | .list ns => .ok (.list ns) out
  | .var x => match env.get x with
    | some v => .ok v out
    | none => .stop .stuck out
  | .neg e => (evalE env out e).bind fun v o => match v with
    | .int n => .ok (.int (-n)) o
    | _ => .stop .stuck o
  | .not_ e => (evalE env out e).bind fun v o => match v with
    | .bool b => .ok (.bool (!b)) o
    -- not reachable from a well-typed source program; Rust's `!` on an i64 (what a mis-grouped `not a < b`
    -- becomes) is the bitwise complement
    | .int n => .ok (.int (-n - 1)) o
    | _ => .stop .stuck o
  | .arith op l r => (evalE env out l).bind fun a o1 => (evalE env o1 r).bind fun b o2 => arithV op a b o2
  | .cmp op l r => (evalE env out l).bind fun a o1 => (evalE env o1 r).bind fun b o2 =>
      match a, b with
      | .int x, .int y => .ok (.bool (intRel op x y)) o2
      | .str x, .str y => .ok (.bool (strRel op x y)) o2
      | .bool x, .bool y => (match op with
        | .eq => .ok (.bool (x == y)) o2
        | .ne => .ok (.bool (x != y)) o2
        | _ => .stop .stuck o2)
      | _, _ => .stop .stuck o2
  | .and_ l r => (evalE env out l).bind fun a o1 => match a with
      | .bool false => .ok (.bool false) o1
      | .bool true => (evalE env o1 r).bind fun b o2 => match b with
        | .bool y => .ok (.bool y) o2
        | _ => .stop .stuck o2
      | _ => .stop .stuck o1
  | .or_ l r => (evalE env out l).bind fun a o1 => match a with
      | .bool true => .ok (.bool true) o1
      | .bool false => (evalE env o1 r).bind fun b o2 => match b with
        | .bool y => .ok (.bool y) o2
        | _ => .stop .stuck o2
      | _ => .stop .stuck o1
  | .concat l r => (evalE env out l).bind fun a o1 => (evalE env o1 r).bind fun b o2 =>
      match a, b with
      | .str x, .str y => .ok (.str (x ++ y)) o2
      | _, _ => .stop .stuck o2
  | .len e => (evalE env out e).bind fun v o => match v with
      | .list ns => .ok (.int ns.length) o
      | .str s => .ok (.int s.length) o
      | _ => .stop .stuck o
  | .index xs i => (evalE env out xs).bind fun a o1 => (evalE env o1 i).bind fun b o2 =>
      match a, b with
      | .list ns, .int k => (match listIndex ns k with
        | .ok v => .ok (.int v) o2
        | .error w => .stop w o2)
      | _, _ => .stop .stuck o2
  | .call1 f a => (evalE env out a).bind fun v o => call1 f v o
  | .call2 f a b => (evalE env out a).bind fun v o1 => (evalE env o1 b).bind fun w o2 => call2 f v w o2
  | .paren e => evalE env out e

/-- `while`: at most `n` iterations are unrolled (`n` is the run's fuel). -/
def iterWhile (cond : Env → List String → R V) (body : Env → List String → R (Flow × Env)) :
    Nat → Env → List String → R (Flow × Env)
  | 0, _, out => .stop .fuel out
  | n + 1, env, out => (cond env out).bind fun c o1 => match c with
    | .bool false => .ok (.next, env) o1
    | .bool true => (body env o1).bind fun fe o2 => match fe with
      | (.next, env') | (.cont, env') => iterWhile cond body n env' o2
      | (.brk, env') => .ok (.next, env') o2
      | (.ret v, env') => .ok (.ret v, env') o2
    | _ => .stop .stuck o1

/-- `for x in <items>`: the items are fixed when the loop starts. -/
def iterFor (x : String) (body : Env → List String → R (Flow × Env)) :
    List Int → Env → List String → R (Flow × Env)
  | [], env, out => .ok (.next, env) out
  | v :: vs, env, out => (body (env.set x (.int v)) out).bind fun fe o => match fe with
    | (.next, env') | (.cont, env') => iterFor x body vs env' o
    | (.brk, env') => .ok (.next, env') o
    | (.ret r, env') => .ok (.ret r, env') o

mutual
  /-- Statement execution (`fuel` bounds loop unrolling only). -/
  def execS (fuel : Nat) (env : Env) (out : List String) : S → R (Flow × Env)
    | .letS _ x e => (evalE call1 call2 env out e).bind fun v o => .ok (.next, env.set x v) o
    | .assign x e => (evalE call1 call2 env out e).bind fun v o => .ok (.next, env.set x v) o
    | .aug x op e =>
      -- `x op= e`: x is read first, then e is evaluated, then the operator is applied
      match env.get x with
      | some xv => (evalE call1 call2 env out e).bind fun v o =>
          (arithV op xv v o).bind fun r o' => .ok (.next, env.set x r) o'
      | none => .stop .stuck out
    | .ifS c thn els => (evalE call1 call2 env out c).bind fun v o => match v with
      | .bool true => execB fuel env o thn
      | .bool false => execElse fuel env o els
      | _ => .stop .stuck o
    | .whileS c body =>
      iterWhile (fun en o => evalE call1 call2 en o c) (fun en o => execB fuel en o body) fuel env out
    | .forRange x lo hi body => (evalE call1 call2 env out lo).bind fun a o1 => (evalE call1 call2 env o1 hi).bind fun b o2 =>
      match a, b with
      | .int l, .int h => iterFor x (fun en o => execB fuel en o body) (rangeList l h) env o2
      | _, _ => .stop .stuck o2
    | .forList x xs body => (evalE call1 call2 env out xs).bind fun a o => match a with
      | .list ns => iterFor x (fun en o' => execB fuel en o' body) ns env o
      | _ => .stop .stuck o
    | .append x e => (evalE call1 call2 env out e).bind fun v o => match env.get x, v with
      | some (.list ns), .int n => .ok (.next, env.set x (.list (ns ++ [n]))) o
      | _, _ => .stop .stuck o
    | .ret e => (evalE call1 call2 env out e).bind fun v o => .ok (.ret v, env) o
    | .print e => (evalE call1 call2 env out e).bind fun v o => .ok (.next, env) (o ++ [showV v])
    | .print2 a b => (evalE call1 call2 env out a).bind fun v o1 => (evalE call1 call2 env o1 b).bind fun w o2 =>
        .ok (.next, env) (o2 ++ [showV v ++ " " ++ showV w])
    | .exprS e => (evalE call1 call2 env out e).bind fun _ o => .ok (.next, env) o
    | .brk => .ok (.brk, env) out
    | .cont => .ok (.cont, env) out
  def execB (fuel : Nat) (env : Env) (out : List String) : Blk → R (Flow × Env)
    | .nil => .ok (.next, env) out
    | .cons s rest => (execS fuel env out s).bind fun fe o => match fe with
      | (.next, env') => execB fuel env' o rest
      | other => .ok other o
  def execElse (fuel : Nat) (env : Env) (out : List String) : Else → R (Flow × Env)
    | .none => .ok (.next, env) out
    | .elif c thn rest => (evalE call1 call2 env out c).bind fun v o => match v with
      | .bool true => execB fuel env o thn
      | .bool false => execElse fuel env o rest
      | _ => .stop .stuck o
    | .else_ body => execB fuel env out body
end
end

/-! ### What the compiler does to the shape of a program -/

def desugarE : E → E
  | .neg e => .neg (desugarE e)
  | .not_ e => .not_ (desugarE e)
  | .arith op l r => .arith op (desugarE l) (desugarE r)
  | .cmp op l r => .cmp op (desugarE l) (desugarE r)
  | .and_ l r => .and_ (desugarE l) (desugarE r)
  | .or_ l r => .or_ (desugarE l) (desugarE r)
  | .concat l r => .concat (desugarE l) (desugarE r)
  | .len e => .len (desugarE e)
  | .index xs i => .index (desugarE xs) (desugarE i)
  | .call1 f a => .call1 f (desugarE a)
  | .call2 f a b => .call2 f (desugarE a) (desugarE b)
  | .paren e => desugarE e               -- Paren arm of lower_expr: grouping is not kept (see Props/C01: Safe)
  | e => e

mutual
  def desugarS : S → S
    | .letS m x e => .letS m x (desugarE e)
    | .assign x e => .assign x (desugarE e)
    | .aug x op e => .assign x (.arith op (.var x) (desugarE e))
    | .ifS c thn els => .ifS (desugarE c) (desugarB thn) (desugarElse els)
    | .whileS c body => .whileS (desugarE c) (desugarB body)
    | .forRange x lo hi body => .forRange x (desugarE lo) (desugarE hi) (desugarB body)
    | .forList x xs body => .forList x (desugarE xs) (desugarB body)
    | .append x e => .append x (desugarE e)
    | .ret e => .ret (desugarE e)
    | .print e => .print (desugarE e)
    | .print2 a b => .print2 (desugarE a) (desugarE b)
    | .exprS e => .exprS (desugarE e)
    | .brk => .brk
    | .cont => .cont
  def desugarB : Blk → Blk
    | .nil => .nil
    | .cons s rest => .cons (desugarS s) (desugarB rest)
  /-- `elif c: body … rest` becomes `else { if c { body } else { rest } }`. -/
  def desugarElse : Else → Else
    | .none => .none
    | .elif c thn rest => .else_ (.cons (.ifS (desugarE c) (desugarB thn) (desugarElse rest)) .nil)
    | .else_ body => .else_ (desugarB body)
end

-- The restructured program has no `elif`, no compound assignment (and no parentheses).
mutual
  def coreS : S → Bool
    | .aug _ _ _ => false
    | .ifS _ thn els => coreB thn && coreElse els
    | .whileS _ body => coreB body
    | .forRange _ _ _ body => coreB body
    | .forList _ _ body => coreB body
    | _ => true
  def coreB : Blk → Bool
    | .nil => true
    | .cons s rest => coreS s && coreB rest
  def coreElse : Else → Bool
    | .none => true
    | .elif _ _ _ => false
    | .else_ body => coreB body
end

/-! ### Functions and whole programs -/

structure Fn where
  name : String
  params : List String
  body : Blk

def findFn (fns : List Fn) (f : String) : Option Fn := fns.find? (·.name == f)

/-- Calls with `n` levels of call depth left (and `n` loop iterations per loop). -/
def runCall1 (fns : List Fn) : Nat → String → V → List String → R V
  | 0, _, _, out => .stop .fuel out
  | n + 1, f, v, out => match findFn fns f with
    | some fn => (match fn.params with
      | [p] => (execB (runCall1 fns n) (fun _ _ _ o => .stop .stuck o) n [(p, v)] out fn.body).bind fun fe o => match fe with
        | (.ret r, _) => .ok r o
        | _ => .ok .unit o
      | _ => .stop .stuck out)
    | none => .stop .stuck out

/-- Run `main` (a function without parameters) with the given fuel. Two-argument calls are resolved through
`runCall1`-style recursion in the driver; the theorems below hold for every call oracle. -/
def runMain (call1 : String → V → List String → R V) (call2 : String → V → V → List String → R V)
    (fuel : Nat) (main : Blk) : R (Flow × Env) :=
  execB call1 call2 fuel [] [] main

end Incan.Core
