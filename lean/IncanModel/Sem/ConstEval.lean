import IncanModel.Kernel.Seq
import IncanModel.Kernel.Num
import IncanModel.Kernel.Policy
/-
Compile-time evaluation of `const` initializers (C06).

Mirrors
  * `TypeChecker::eval_const_expr` / `eval_const_literal`  (src/frontend/typechecker/const_eval.rs)
  * `eval_const_by_name` (cycle detection through NotStarted / InProgress / Done)
  * `IrEmitter::eval_static_str_expr` (src/backend/ir/emit/consts.rs, the `concat!` folding)
and gives the same expressions their run-time meaning (`runEval`), built from the kernels of C04/C05.
-/
namespace Incan.ConstEval
open Incan.Seq Incan.Policy

inductive Op where
  | add | sub | mul | div | floorDiv | mod | pow
  | eq | ne | lt | gt | le | ge
  | and_ | or_ | in_ | notIn | is_
deriving Repr, DecidableEq

/-- Initializer expressions.  `absent` stands for an omitted slice bound. -/
inductive E where
  | int (n : Int64)
  | float (f : Float)
  | bool (b : Bool)
  | str (s : List Char)
  | ref (name : String)
  | neg (e : E)
  | not_ (e : E)
  | bin (op : Op) (l r : E)
  | index (b i : E)
  | slice (b start stop step : E)
  | absent
  | other                       -- call, method call, f-string, parenthesised expression, if, match, …
deriving Repr

inductive Ty where
  | int | float | bool | fstr | unknown
deriving Repr, DecidableEq

inductive CV where
  | int (n : Int64) | float (f : Float) | bool (b : Bool) | str (s : List Char)
deriving Repr

inductive CErr where
  | nonConst (name : String)
  | notAllowed
  | unaryNeg | unaryNot
  | binaryUnsupported
  | cannotCompare
  | logicalNeedsBool
  | operatorNotAllowed
  | indexOnlyStrings | indexMustBeInt
  | sliceOnlyStrings | sliceBoundMustBeInt
  | stringIndexOutOfRange        -- "IndexError: string index out of range"
  | sliceStepZero                -- "ValueError: slice step cannot be zero"
deriving Repr, DecidableEq

abbrev CRes := Except CErr (Ty × Option CV)

def numTy : Ty → Option NumTy
  | .int => some .int
  | .float => some .float
  | _ => none

def Op.toNum : Op → Option NumOp
  | .add => some .add | .sub => some .sub | .mul => some .mul | .div => some .div
  | .floorDiv => some .floorDiv | .mod => some .mod | .pow => some .pow
  | _ => none

def Op.isCmp : Op → Bool
  | .eq | .ne | .lt | .gt | .le | .ge => true
  | _ => false

/-- `pow_exponent_kind_from_ast` (after the fix that looks through nothing in const context: parentheses are
rejected there). -/
def powKind (r : E) (rty : Ty) : PowKind :=
  match r with
  | .int n => if n ≥ 0 then .nonNegLit else .negLit
  | .neg (.int n) => if n = 0 then .nonNegLit else .negLit      -- `-0` is the literal 0 (extract_int_literal negates the value)
  | _ => if rty = .float then .float else .variable

def cvStr : Option CV → Option (List Char)
  | some (.str s) => some s
  | _ => none

def cvInt : Option CV → Option Int64
  | some (.int n) => some n
  | _ => none

/-- `incan_core::strings::str_contains`: substring test. -/
def isInfix (needle hay : List Char) : Bool :=
  (List.range (hay.length + 1)).any fun i => (hay.drop i).take needle.length == needle

/-- One slice bound: `(present, type, value)`. -/
def boundOf (r : Ty × Option CV) : Ty × Option Int64 := (r.1, cvInt r.2)

/-- The Binary arm once both operands are evaluated (`r` is kept for the syntactic exponent classification). -/
def binConst (op : Op) (r : E) (lt : Ty) (lv : Option CV) (rt : Ty) (rv : Option CV) : CRes :=
  if op = .add ∧ lt = .fstr ∧ rt = .fstr then
    .ok (.fstr, match cvStr lv, cvStr rv with
      | some a, some b => some (.str (a ++ b))
      | _, _ => none)
  else if op.isCmp ∧ lt = .fstr ∧ rt = .fstr then .ok (.bool, none)
  else if (op = .in_ ∨ op = .notIn) ∧ lt = .fstr ∧ rt = .fstr then
    .ok (.bool, match cvStr lv, cvStr rv with
      | some needle, some hay => some (.bool (if op = .notIn then !(isInfix needle hay) else isInfix needle hay))
      | _, _ => none)
  else match op.toNum with
    | some nop => (match numTy lt, numTy rt with
      | some a, some b =>
        let k := if op = .pow then some (powKind r rt) else none
        .ok (match resultNumericType nop a b k with | .int => .int | .float => .float, none)
      | _, _ => .error .binaryUnsupported)
    | none =>
      if op.isCmp then
        if (numTy lt).isSome ∧ (numTy rt).isSome then .ok (.bool, none)
        else if lt = rt then .ok (.bool, none)
        else .error .cannotCompare
      else if op = .and_ ∨ op = .or_ then
        if lt = .bool ∧ rt = .bool then
          .ok (.bool, match lv, rv with
            | some (.bool a), some (.bool b) => some (.bool (if op = .and_ then a && b else a || b))
            | _, _ => none)
        else .error .logicalNeedsBool
      else .error .operatorNotAllowed

def E.isAbsent : E → Bool
  | .absent => true
  | _ => false

/-- A slice bound: `(present, value if known)`; a present bound must have type int. -/
def cBound (e : E) (r : CRes) : Except CErr (Bool × Option Int64) :=
  if e.isAbsent then .ok (false, none) else
  match r with
  | .error x => .error x
  | .ok (t, v) => if t ≠ .int then .error .sliceBoundMustBeInt else .ok (true, cvInt v)

/-- `eval_const_expr`.  `C` gives the result of every already declared const (by name). -/
def constEval (C : String → Option (Ty × Option CV)) : E → CRes
  | .int n => .ok (.int, some (.int n))
  | .float f => .ok (.float, some (.float f))
  | .bool b => .ok (.bool, some (.bool b))
  | .str s => .ok (.fstr, some (.str s))
  | .ref name => match C name with
    | some r => .ok r
    | none => .error (.nonConst name)
  | .neg e => match constEval C e with
    | .error x => .error x
    | .ok (t, v) =>
      if t = .int ∨ t = .float then
        .ok (t, match v with
          | some (.int n) => some (.int (-n))
          | some (.float f) => some (.float (-f))
          | _ => none)
      else .error .unaryNeg
  | .not_ e => match constEval C e with
    | .error x => .error x
    | .ok (t, v) =>
      if t = .bool then
        .ok (.bool, match v with
          | some (.bool b) => some (.bool (!b))
          | _ => none)
      else .error .unaryNot
  | .bin op l r => match constEval C l with
    | .error x => .error x
    | .ok (lt, lv) => match constEval C r with
      | .error x => .error x
      | .ok (rt, rv) => binConst op r lt lv rt rv
  | .index b i => match constEval C b with
    | .error x => .error x
    | .ok (bt, bv) => match constEval C i with
      | .error x => .error x
      | .ok (it, iv) =>
        if bt ≠ .fstr then .error .indexOnlyStrings
        else if it ≠ .int then .error .indexMustBeInt
        else match cvStr bv, cvInt iv with
          | some s, some n => (match strIndex s n with
            | .ok c => .ok (.fstr, some (.str [c]))
            | .error _ => .error .stringIndexOutOfRange)
          | _, _ => .ok (.fstr, none)
  | .slice b st en sp => match constEval C b with
    | .error x => .error x
    | .ok (bt, bv) =>
      if bt ≠ .fstr then .error .sliceOnlyStrings else
      -- each present bound: evaluated in order start, end, step; must be int
      match cBound st (constEval C st) with
      | .error x => .error x
      | .ok (sPresent, sVal) => match cBound en (constEval C en) with
        | .error x => .error x
        | .ok (ePresent, eVal) => match cBound sp (constEval C sp) with
          | .error x => .error x
          | .ok (pPresent, pVal) =>
            let known := (!sPresent || sVal.isSome) && (!ePresent || eVal.isSome) && (!pPresent || pVal.isSome)
            match cvStr bv, known with
            | some s, true => (match strSlice s sVal eVal pVal with
              | .ok out => .ok (.fstr, some (.str out))
              | .error .sliceStepZero => .error .sliceStepZero
              | .error _ => .error .stringIndexOutOfRange)
            | _, _ => .ok (.fstr, none)
  | .absent => .error .notAllowed
  | .other => .error .notAllowed

/-! ### Run-time meaning of the same expressions (function-body evaluation) -/

inductive RV where
  | int (n : Int64) | float (f : Float) | bool (b : Bool) | str (s : List Char)
deriving Repr

inductive RErr where
  | zeroDivision | stringIndexOutOfRange | sliceStepZero | stuck
deriving Repr, DecidableEq

def CV.toRV : CV → RV
  | .int n => .int n | .float f => .float f | .bool b => .bool b | .str s => .str s

def RV.ty : RV → Ty
  | .int _ => .int | .float _ => .float | .bool _ => .bool | .str _ => .fstr

def i64ToFloat (n : Int64) : Float := Float.ofInt n.toInt

/-- Lexicographic comparison of strings by code point (Rust `str` ordering = byte-wise UTF-8 order). -/
def strLt : List Char → List Char → Bool
  | [], [] => false
  | [], _ :: _ => true
  | _ :: _, [] => false
  | a :: as, b :: bs => if a.toNat < b.toNat then true else if a.toNat > b.toNat then false else strLt as bs

def cmpResult (op : Op) (lt eq : Bool) : Bool :=
  match op with
  | .eq => eq | .ne => !eq | .lt => lt | .le => lt || eq | .gt => !(lt || eq) | .ge => !lt
  | _ => false

/-- A strict binary operator applied to two run-time values. -/
def binRun (op : Op) (r : E) (lv rv : RV) : Except RErr RV :=
  match op, lv, rv with
  | .add, .str a, .str b => .ok (.str (a ++ b))
  | .in_, .str a, .str b => .ok (.bool (isInfix a b))
  | .notIn, .str a, .str b => .ok (.bool (!(isInfix a b)))
  | op, .str a, .str b => if op.isCmp then .ok (.bool (cmpResult op (strLt a b) (a == b))) else .error .stuck
  | op, .bool a, .bool b => if op = .eq then .ok (.bool (a == b)) else if op = .ne then .ok (.bool (a != b)) else .error .stuck
  | op, .int a, .int b =>
    (match op with
    | .add => .ok (.int (a + b))
    | .sub => .ok (.int (a - b))
    | .mul => .ok (.int (a * b))
    | .floorDiv => (match Incan.Num.pyFloorDivI64 a b with | .ok q => .ok (.int q) | .error _ => .error .zeroDivision)
    | .mod => (match Incan.Num.pyModI64 a b with | .ok q => .ok (.int q) | .error _ => .error .zeroDivision)
    | .div => if b = 0 then .error .zeroDivision else .ok (.float (i64ToFloat a / i64ToFloat b))
    | .pow =>
      (match powKind r .int with
      | .nonNegLit => .ok (.int (Int64.ofInt (a.toInt ^ b.toInt.toNat)))
      | _ => .ok (.float (Float.pow (i64ToFloat a) (i64ToFloat b))))
    | op => if op.isCmp then .ok (.bool (cmpResult op (a < b) (a == b))) else .error .stuck)
  | op, lv, rv =>
    -- mixed int/float and float/float arithmetic: promote to float
    let toF : RV → Option Float := fun v => match v with | .int n => some (i64ToFloat n) | .float f => some f | _ => none
    (match toF lv, toF rv with
    | some x, some y =>
      (match op with
      | .add => .ok (.float (x + y))
      | .sub => .ok (.float (x - y))
      | .mul => .ok (.float (x * y))
      | .div => if y == 0.0 then .error .zeroDivision else .ok (.float (x / y))
      | .pow => .ok (.float (Float.pow x y))
      | .floorDiv => if y == 0.0 then .error .zeroDivision else .ok (.float (Float.floor (x / y)))
      | .mod => if y == 0.0 then .error .zeroDivision else .ok (.float (x - y * Float.floor (x / y)))
      | op => if op.isCmp then .ok (.bool (cmpResult op (x < y) (x == y))) else .error .stuck)
    | _, _ => .error .stuck)

def rBound (e : E) (r : Except RErr RV) : Except RErr (Option Int64) :=
  if e.isAbsent then .ok none else
  match r with
  | .error x => .error x
  | .ok (.int n) => .ok (some n)
  | .ok _ => .error .stuck

/-- Run-time evaluation, left to right, of the expression written in a function body. -/
def runEval (R : String → Option RV) : E → Except RErr RV
  | .int n => .ok (.int n)
  | .float f => .ok (.float f)
  | .bool b => .ok (.bool b)
  | .str s => .ok (.str s)
  | .ref name => match R name with
    | some v => .ok v
    | none => .error .stuck
  | .neg e => match runEval R e with
    | .ok (.int n) => .ok (.int (-n))
    | .ok (.float f) => .ok (.float (-f))
    | .ok _ => .error .stuck
    | .error x => .error x
  | .not_ e => match runEval R e with
    | .ok (.bool b) => .ok (.bool (!b))
    | .ok _ => .error .stuck
    | .error x => .error x
  | .bin op l r =>
    -- `and` / `or` short-circuit
    if op = .and_ ∨ op = .or_ then
      match runEval R l with
      | .ok (.bool a) =>
        if (op = .and_ ∧ a = false) then .ok (.bool false)
        else if (op = .or_ ∧ a = true) then .ok (.bool true)
        else (match runEval R r with
          | .ok (.bool b) => .ok (.bool b)
          | .ok _ => .error .stuck
          | .error x => .error x)
      | .ok _ => .error .stuck
      | .error x => .error x
    else match runEval R l with
    | .error x => .error x
    | .ok lv => match runEval R r with
      | .error x => .error x
      | .ok rv => binRun op r lv rv
  | .index b i => match runEval R b with
    | .error x => .error x
    | .ok bv => match runEval R i with
      | .error x => .error x
      | .ok iv => match bv, iv with
        | .str s, .int n => (match strIndex s n with
          | .ok c => .ok (.str [c])
          | .error _ => .error .stringIndexOutOfRange)
        | _, _ => .error .stuck
  | .slice b st en sp => match runEval R b with
    | .error x => .error x
    | .ok bv =>
      match rBound st (runEval R st) with
      | .error x => .error x
      | .ok sVal => match rBound en (runEval R en) with
        | .error x => .error x
        | .ok eVal => match rBound sp (runEval R sp) with
          | .error x => .error x
          | .ok pVal => match bv with
            | .str s => (match strSlice s sVal eVal pVal with
              | .ok out => .ok (.str out)
              | .error .sliceStepZero => .error .sliceStepZero
              | .error _ => .error .stringIndexOutOfRange)
            | _ => .error .stuck
  | .absent => .error .stuck
  | .other => .error .stuck

/-! ### `concat!` folding of `&'static str` chains (emit/consts.rs) -/

/-- `eval_static_str_expr` with the const table resolved (`S name` = folded value of that const, if any). -/
def staticStr (S : String → Option (List Char)) : E → Option (List Char)
  | .str s => some s
  | .ref name => S name
  | .bin .add l r => match staticStr S l, staticStr S r with
    | some a, some b => some (a ++ b)
    | _, _ => none
  | _ => none

/-! ### Dependency cycles (`eval_const_by_name`) -/

inductive DErr where
  | cycle (path : List String)     -- "Const dependency cycle detected: a -> b -> a"
  | unknown (name : String)
  | fuel
deriving Repr, DecidableEq

/-- Depth-first evaluation order with the in-progress stack (the `InProgress` names, innermost first).
`deps name = none`: not a const. -/
def visit (deps : String → Option (List String)) : Nat → List String → String → Except DErr Unit
  | 0, _, _ => .error .fuel
  | fuel + 1, stack, n =>
    if n ∈ stack then .error (.cycle (stack.reverse ++ [n]))
    else match deps n with
      | none => .error (.unknown n)
      | some ds =>
        ds.foldl (fun acc d => match acc with
          | .error e => .error e
          | .ok () => visit deps fuel (n :: stack) d) (.ok ())

end Incan.ConstEval
