import IncanModel.Sem.Core
/-
Static rules for the core fragment (C02): what the Incan checker accepts and what rustc requires of the
restructured program.

`chk*`  mirrors the checker on the fragment: expression types (check_expr), assignment / compound assignment
        (mutability and type of the target, block scopes inside a function), conditions are bool, return type,
        append on List[int] (src/frontend/typechecker/check_stmt.rs, check_expr/*)
`rust*` is rustc's view of the same constructs after `desugar`: `let` / `let mut` bindings with block scope,
        assignment only to `let mut` bindings, operand and condition types, helper signatures.
-/
namespace Incan.Core

inductive Ty where | int | bool | str | listInt | unit
deriving Repr, DecidableEq

structure VarInfo where
  ty : Ty
  isMut : Bool
deriving Repr, DecidableEq

/-- Block scopes of the current function, innermost first. -/
abbrev Scopes := List (List (String × VarInfo))

def lookupVar : Scopes → String → Option VarInfo
  | [], _ => none
  | f :: rest, x => match f.find? (·.1 == x) with
    | some p => some p.2
    | none => lookupVar rest x

def declare (sc : Scopes) (x : String) (v : VarInfo) : Scopes :=
  match sc with
  | [] => [[(x, v)]]
  | f :: rest => ((x, v) :: f) :: rest

structure Sig where
  params : List Ty
  ret : Ty
deriving Repr

/-- Expression typing, shared by both views (the emitter keeps the checker's types: C07). -/
def tyE (sigs : String → Option Sig) (sc : Scopes) : E → Option Ty
  | .int _ => some .int
  | .bool _ => some .bool
  | .str _ => some .str
  | .list _ => some .listInt
  | .var x => (lookupVar sc x).map (·.ty)
  | .neg e => if tyE sigs sc e = some .int then some .int else none
  | .not_ e => if tyE sigs sc e = some .bool then some .bool else none
  | .arith _ l r => if tyE sigs sc l = some .int ∧ tyE sigs sc r = some .int then some .int else none
  | .cmp op l r =>
    match tyE sigs sc l, tyE sigs sc r with
    | some .int, some .int => some .bool
    | some .str, some .str => some .bool
    | some .bool, some .bool => if op = .eq ∨ op = .ne then some .bool else none
    | _, _ => none
  | .and_ l r => if tyE sigs sc l = some .bool ∧ tyE sigs sc r = some .bool then some .bool else none
  | .or_ l r => if tyE sigs sc l = some .bool ∧ tyE sigs sc r = some .bool then some .bool else none
  | .concat l r => if tyE sigs sc l = some .str ∧ tyE sigs sc r = some .str then some .str else none
  | .len e => match tyE sigs sc e with
    | some .listInt | some .str => some .int
    | _ => none
  | .index xs i => if tyE sigs sc xs = some .listInt ∧ tyE sigs sc i = some .int then some .int else none
  | .call1 f a => match sigs f, tyE sigs sc a with
    | some ⟨[p], r⟩, some t => if t = p then some r else none
    | _, _ => none
  | .call2 f a b => match sigs f, tyE sigs sc a, tyE sigs sc b with
    | some ⟨[p, q], r⟩, some t, some u => if t = p ∧ u = q then some r else none
    | _, _, _ => none
  | .paren e => tyE sigs sc e

def lookupLocal : Scopes → String → Option VarInfo
  | [], _ => none
  | f :: _, x => (f.find? (·.1 == x)).map (·.2)

/-! ### The Incan checker on statements

`x = e` (in the model: `letS false x e` for the first binding the generator writes, `assign x e` for later ones —
the source text is the same) is decided as `check_assignment` decides it:
  * `x` bound in this very block: a re-assignment — mutable target, compatible type
  * `x` bound in an enclosing block of the function: a re-assignment of that variable — mutable target; the type is
    compared only when `strictOuter` (the implementation does NOT compare it: recorded finding, the inner block
    gets a shadow entry of the new type)
  * otherwise a new immutable binding in this block
`mut x = e` declares a new mutable binding (or re-assigns an `x` of this very block). -/
/-- `check_assignment` on `x = e` / `mut x = e`. -/
def chkBind (strictOuter : Bool) (sigs : String → Option Sig) (sc : Scopes) (m : Bool) (x : String) (e : E) : Option Scopes :=
  match tyE sigs sc e with
  | none => none
  | some t =>
    match lookupLocal sc x with
    | some v => if v.isMut ∧ v.ty = t then some sc else none
    | none =>
      if m then some (declare sc x ⟨t, true⟩)
      else match lookupVar sc x with
        | some v =>
          if v.isMut ∧ (!strictOuter ∨ v.ty = t) then some (declare sc x ⟨t, true⟩) else none
        | none => some (declare sc x ⟨t, false⟩)

mutual
  def chkS (strictOuter : Bool) (sigs : String → Option Sig) (ret : Ty) (sc : Scopes) : S → Option Scopes
    | .letS m x e => chkBind strictOuter sigs sc m x e
    | .assign x e => chkBind strictOuter sigs sc false x e
    | .aug x _ e =>
      match tyE sigs sc e, lookupVar sc x with
      | some .int, some v => if v.isMut ∧ v.ty = .int then some sc else none
      | _, _ => none
    | .ifS c thn els =>
      if tyE sigs sc c = some .bool then
        match chkB strictOuter sigs ret ([] :: sc) thn, chkElse strictOuter sigs ret sc els with
        | some _, true => some sc
        | _, _ => none
      else none
    | .whileS c body =>
      if tyE sigs sc c = some .bool then (chkB strictOuter sigs ret ([] :: sc) body).map fun _ => sc else none
    | .forRange x lo hi body =>
      if tyE sigs sc lo = some .int ∧ tyE sigs sc hi = some .int then
        (chkB strictOuter sigs ret ([(x, ⟨.int, false⟩)] :: sc) body).map fun _ => sc
      else none
    | .forList x xs body =>
      if tyE sigs sc xs = some .listInt then
        (chkB strictOuter sigs ret ([(x, ⟨.int, false⟩)] :: sc) body).map fun _ => sc
      else none
    | .append x e =>
      match tyE sigs sc e, lookupVar sc x with
      | some .int, some v => if v.ty = .listInt then some sc else none
      | _, _ => none
    | .ret e => if tyE sigs sc e = some ret then some sc else none
    | .print e => (tyE sigs sc e).map fun _ => sc
    | .print2 a b => match tyE sigs sc a, tyE sigs sc b with | some _, some _ => some sc | _, _ => none
    | .exprS e => (tyE sigs sc e).map fun _ => sc
    | .brk => some sc
    | .cont => some sc
  def chkB (strictOuter : Bool) (sigs : String → Option Sig) (ret : Ty) (sc : Scopes) : Blk → Option Scopes
    | .nil => some sc
    | .cons s rest => match chkS strictOuter sigs ret sc s with
      | some sc' => chkB strictOuter sigs ret sc' rest
      | none => none
  def chkElse (strictOuter : Bool) (sigs : String → Option Sig) (ret : Ty) (sc : Scopes) : Else → Bool
    | .none => true
    | .elif c thn rest =>
      tyE sigs sc c = some .bool && (chkB strictOuter sigs ret ([] :: sc) thn).isSome && chkElse strictOuter sigs ret sc rest
    | .else_ body => (chkB strictOuter sigs ret ([] :: sc) body).isSome
end

/-! ### What lowering + rustc require of the emitted program

Lowering turns a plain `x = e` into an assignment when `x` is bound in ANY enclosing scope of the function
(error "Cannot reassign immutable variable" when that binding is not `mut`), otherwise into `let x = e`; `mut x = e`
into `let mut x = e`.  rustc then needs the assigned value to have the variable's type, conditions to be bool,
operands to have the helper's parameter types, and `push` a `let mut` vector. -/
/-- Lowering's decision for `x = e` / `mut x = e`, and rustc's requirement on the result. -/
def rustBind (sigs : String → Option Sig) (sc : Scopes) (m : Bool) (x : String) (e : E) : Option Scopes :=
  match tyE sigs sc e with
  | none => none
  | some t =>
    if m then
      (match lookupLocal sc x with
      | some v => if v.isMut ∧ v.ty = t then some sc else none
      | none => some (declare sc x ⟨t, true⟩))
    else match lookupVar sc x with
      | some v => if v.isMut ∧ v.ty = t then some sc else none
      | none => some (declare sc x ⟨t, false⟩)

mutual
  def rustS (sigs : String → Option Sig) (ret : Ty) (sc : Scopes) : S → Option Scopes
    | .letS m x e => rustBind sigs sc m x e
    | .assign x e => rustBind sigs sc false x e
    | .aug x _ e =>
      match tyE sigs sc e, lookupVar sc x with
      | some .int, some v => if v.isMut ∧ v.ty = .int then some sc else none
      | _, _ => none
    | .ifS c thn els =>
      if tyE sigs sc c = some .bool then
        match rustB sigs ret ([] :: sc) thn, rustElse sigs ret sc els with
        | some _, true => some sc
        | _, _ => none
      else none
    | .whileS c body =>
      if tyE sigs sc c = some .bool then (rustB sigs ret ([] :: sc) body).map fun _ => sc else none
    | .forRange x lo hi body =>
      if tyE sigs sc lo = some .int ∧ tyE sigs sc hi = some .int then
        (rustB sigs ret ([(x, ⟨.int, false⟩)] :: sc) body).map fun _ => sc
      else none
    | .forList x xs body =>
      if tyE sigs sc xs = some .listInt then
        (rustB sigs ret ([(x, ⟨.int, false⟩)] :: sc) body).map fun _ => sc
      else none
    | .append x e =>
      match tyE sigs sc e, lookupVar sc x with
      | some .int, some v => if v.ty = .listInt then some sc else none
      | _, _ => none
    | .ret e => if tyE sigs sc e = some ret then some sc else none
    | .print e => (tyE sigs sc e).map fun _ => sc
    | .print2 a b => match tyE sigs sc a, tyE sigs sc b with | some _, some _ => some sc | _, _ => none
    | .exprS e => (tyE sigs sc e).map fun _ => sc
    | .brk => some sc
    | .cont => some sc
  def rustB (sigs : String → Option Sig) (ret : Ty) (sc : Scopes) : Blk → Option Scopes
    | .nil => some sc
    | .cons s rest => match rustS sigs ret sc s with
      | some sc' => rustB sigs ret sc' rest
      | none => none
  -- `elif` becomes `else { if … }`: one more (empty) block scope around the nested `if`
  def rustElse (sigs : String → Option Sig) (ret : Ty) (sc : Scopes) : Else → Bool
    | .none => true
    | .elif c thn rest =>
      tyE sigs ([] :: sc) c = some .bool && (rustB sigs ret ([] :: [] :: sc) thn).isSome && rustElse sigs ret ([] :: sc) rest
    | .else_ body => (rustB sigs ret ([] :: sc) body).isSome
end

end Incan.Core
