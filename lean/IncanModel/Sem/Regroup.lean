import IncanModel.Sem.Core
/-
How rustc reads the text the emitter produces for an expression (C01).

`emit_binop_expr` / the unary arm splice operand tokens without adding parentheses, and lowering drops the
source's parenthesis nodes, so the emitted text of a tree is its in-order token sequence; rustc then groups it
by Rust's own precedence.  `regroupE e` is that re-reading:  flatten the infix-emitted part of `e` (unary `-`
and `!`, `+ - *`, integer comparisons, `&&`, `||`) around its delimited atoms (literals, variables, calls and
helper calls — `//`, `%`, string operators, indexing, `len` are emitted as function calls whose arguments are
delimited by the call's parentheses) and parse the token list with Rust's precedence table.
-/
namespace Incan.Core

inductive BinTok where
  | mul | add | sub | cmp (op : COp) | and_ | or_
deriving Repr, DecidableEq

inductive Tok where
  | atom (e : E)
  | neg | not_
  | bin (o : BinTok)
deriving Repr

/-- Rust binding strength (higher binds tighter). -/
def BinTok.prec : BinTok → Nat
  | .mul => 7 | .add | .sub => 6 | .cmp _ => 4 | .and_ => 3 | .or_ => 2

def BinTok.build (o : BinTok) (l r : E) : E :=
  match o with
  | .mul => .arith .mul l r | .add => .arith .add l r | .sub => .arith .sub l r
  | .cmp op => .cmp op l r | .and_ => .and_ l r | .or_ => .or_ l r

/-- Syntactically a string (the generator compares string literals / concatenations only). -/
def isStrE : E → Bool
  | .str _ | .concat _ _ => true
  | .paren e => isStrE e
  | _ => false

mutual
  /-- Precedence-climbing parser over the flat token list (`fuel` ≥ number of tokens).  Comparison operators
  do not chain in Rust (`a < b < c` is a syntax error): `none`. -/
  def parsePrimary : Nat → List Tok → Option (E × List Tok)
    | 0, _ => none
    | _ + 1, .atom e :: rest => some (e, rest)
    | f + 1, .neg :: rest => (parsePrimary f rest).map fun (e, r) => (.neg e, r)
    | f + 1, .not_ :: rest => (parsePrimary f rest).map fun (e, r) => (.not_ e, r)
    | _, _ => none
  def parseClimb : Nat → Nat → E → List Tok → Option (E × List Tok)
    | 0, _, _, _ => none
    | f + 1, minPrec, lhs, .bin o :: rest =>
      if o.prec < minPrec then some (lhs, .bin o :: rest) else
      match parsePrimary f rest with
      | none => none
      | some (rhs0, rest1) =>
        -- absorb tighter operators into the right operand
        match parseRhs f o.prec rhs0 rest1 with
        | none => none
        | some (rhs, rest2) =>
          -- a second comparison at the same level is a syntax error in Rust
          match o, rest2 with
          | .cmp _, .bin (.cmp _) :: _ => none
          | _, _ => parseClimb f minPrec (o.build lhs rhs) rest2
    | _ + 1, _, lhs, rest => some (lhs, rest)
  def parseRhs : Nat → Nat → E → List Tok → Option (E × List Tok)
    | 0, _, _, _ => none
    | f + 1, p, rhs, .bin o :: rest =>
      if o.prec > p then
        match parseClimb f (p + 1) rhs (.bin o :: rest) with
        | none => none
        | some (rhs', rest') => some (rhs', rest')
      else some (rhs, .bin o :: rest)
    | _ + 1, _, rhs, rest => some (rhs, rest)
end

def parseFlat (ts : List Tok) : Option E :=
  let fuel := 4 * ts.length + 4
  match parsePrimary fuel ts with
  | none => none
  | some (lhs, rest) => match parseClimb fuel 0 lhs rest with
    | some (e, []) => some e
    | _ => none

mutual
  /-- The emitted text of an expression, as tokens; atoms carry their own (already re-read) sub-expressions. -/
  def flat : E → Option (List Tok)
    | .neg e => (flat e).map fun ts => .neg :: ts
    | .not_ e => (flat e).map fun ts => .not_ :: ts
    | .paren e => flat e
    | .arith .mul l r => (match flat l, flat r with | some a, some b => some (a ++ [.bin .mul] ++ b) | _, _ => none)
    | .arith .add l r => (match flat l, flat r with | some a, some b => some (a ++ [.bin .add] ++ b) | _, _ => none)
    | .arith .sub l r => (match flat l, flat r with | some a, some b => some (a ++ [.bin .sub] ++ b) | _, _ => none)
    | .and_ l r => (match flat l, flat r with | some a, some b => some (a ++ [.bin .and_] ++ b) | _, _ => none)
    | .or_ l r => (match flat l, flat r with | some a, some b => some (a ++ [.bin .or_] ++ b) | _, _ => none)
    | .cmp op l r =>
      if isStrE l || isStrE r then
        (match regroupE l, regroupE r with | some a, some b => some [.atom (.cmp op a b)] | _, _ => none)
      else (match flat l, flat r with | some a, some b => some (a ++ [.bin (.cmp op)] ++ b) | _, _ => none)
    | .arith op l r => (match regroupE l, regroupE r with | some a, some b => some [.atom (.arith op a b)] | _, _ => none)
    | .concat l r => (match regroupE l, regroupE r with | some a, some b => some [.atom (.concat a b)] | _, _ => none)
    | .len e => (regroupE e).map fun a => [.atom (.len a)]
    | .index xs i => (match regroupE xs, regroupE i with | some a, some b => some [.atom (.index a b)] | _, _ => none)
    | .call1 f a => (regroupE a).map fun x => [.atom (.call1 f x)]
    | .call2 f a b => (match regroupE a, regroupE b with | some x, some y => some [.atom (.call2 f x y)] | _, _ => none)
    | e => some [.atom e]
  /-- What rustc makes of the emitted text of `e` (`none`: it does not parse). -/
  def regroupE : E → Option E
    | .neg e => (flat (.neg e)).bind parseFlat
    | .not_ e => (flat (.not_ e)).bind parseFlat
    | .paren e => regroupE e
    | .arith op l r => (flat (.arith op l r)).bind parseFlat
    | .cmp op l r => (flat (.cmp op l r)).bind parseFlat
    | .and_ l r => (flat (.and_ l r)).bind parseFlat
    | .or_ l r => (flat (.or_ l r)).bind parseFlat
    | .concat l r => (match regroupE l, regroupE r with | some a, some b => some (.concat a b) | _, _ => none)
    | .len e => (regroupE e).map .len
    | .index xs i => (match regroupE xs, regroupE i with | some a, some b => some (.index a b) | _, _ => none)
    | .call1 f a => (regroupE a).map (.call1 f)
    | .call2 f a b => (match regroupE a, regroupE b with | some x, some y => some (.call2 f x y) | _, _ => none)
    | e => some e
end

mutual
  /-- The whole program as rustc reads it, after the restructuring of `desugar`. -/
  def regroupS : S → Option S
    | .letS m x e => (regroupE e).map (.letS m x)
    | .assign x e => (regroupE e).map (.assign x)
    | .aug x op e => (regroupE (.arith op (.var x) e)).map (.assign x)   -- `x = x op e`, spliced flat
    | .ifS c thn els => (match regroupE c, regroupB thn, regroupElse els with
      | some c', some t', some e' => some (.ifS c' t' e') | _, _, _ => none)
    | .whileS c body => (match regroupE c, regroupB body with | some c', some b' => some (.whileS c' b') | _, _ => none)
    | .forRange x lo hi body => (match regroupE lo, regroupE hi, regroupB body with
      | some a, some b, some c => some (.forRange x a b c) | _, _, _ => none)
    | .forList x xs body => (match regroupE xs, regroupB body with | some a, some b => some (.forList x a b) | _, _ => none)
    | .append x e => (regroupE e).map (.append x)
    | .ret e => (regroupE e).map .ret
    | .print e => (regroupE e).map .print
    | .print2 a b => (match regroupE a, regroupE b with | some x, some y => some (.print2 x y) | _, _ => none)
    | .exprS e => (regroupE e).map .exprS
    | .brk => some .brk
    | .cont => some .cont
  def regroupB : Blk → Option Blk
    | .nil => some .nil
    | .cons s rest => (match regroupS s, regroupB rest with | some s', some r' => some (.cons s' r') | _, _ => none)
  def regroupElse : Else → Option Else
    | .none => some .none
    | .elif c thn rest => (match regroupE c, regroupB thn, regroupElse rest with
      | some c', some t', some r' => some (.else_ (.cons (.ifS c' t' r') .nil)) | _, _, _ => none)
    | .else_ body => (regroupB body).map .else_
end

end Incan.Core
