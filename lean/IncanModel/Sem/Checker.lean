/-
The type checker's traversal, scope chain and match-coverage decision (C03).

Mirrors
  * `check_statement` / `check_expr` and the per-construct walkers (`check_if_stmt`, `check_while_stmt`,
    `check_for_stmt`, `check_match`, `check_if_expr`, comprehensions, closures, f-strings, call arguments …):
    WHICH children of a construct are handed back to the checker (src/frontend/typechecker/check_stmt.rs,
    check_expr/*.rs)
  * `check_assignment` + `SymbolTable::{lookup_local, lookup_in_function, lookup}` (block scopes inside a function)
  * `check_match_exhaustiveness` (check_expr/match_.rs)
-/
namespace Incan.Checker

/-! ### Traversal -/

mutual
  /-- An expression position: its id, the role it plays in its parent (`"If.elifcond"`, `"Call.arg"`, …), its
  sub-expressions and the statement blocks it owns (match arm blocks, if-expression bodies). -/
  inductive Ex where
    | mk (id : Nat) (role : String) (subs : List Ex) (blocks : List Blk)
  /-- A statement: the expressions it contains directly and the blocks it owns (then/elif/else/loop bodies). -/
  inductive St where
    | mk (exprs : List Ex) (blocks : List Blk)
  /-- A statement list with the role it plays (`"If.elif"`, `"While.body"`, `"Match.armblock"`, …). -/
  inductive Blk where
    | mk (role : String) (stmts : List St)
end

/-- Roles the walkers do NOT hand back to the checker.  Empty since the `fix:` commit for `elif`; before it the
list was `["If.elifcond", "If.elif"]`. -/
def skippedRoles : List String := []

def skipped (role : String) : Bool := skippedRoles.contains role

mutual
  /-- Ids of the expression positions on which `check_expr` is called. -/
  def visitEx : Ex → List Nat
    | .mk id role subs blocks => if skipped role then [] else id :: (visitExs subs ++ visitBlks blocks)
  def visitExs : List Ex → List Nat
    | [] => []
    | e :: es => visitEx e ++ visitExs es
  def visitSt : St → List Nat
    | .mk exprs blocks => visitExs exprs ++ visitBlks blocks
  def visitSts : List St → List Nat
    | [] => []
    | s :: ss => visitSt s ++ visitSts ss
  def visitBlk : Blk → List Nat
    | .mk role stmts => if skipped role then [] else visitSts stmts
  def visitBlks : List Blk → List Nat
    | [] => []
    | b :: bs => visitBlk b ++ visitBlks bs
end

mutual
  /-- Every expression position of the program. -/
  def allEx : Ex → List Nat
    | .mk id _ subs blocks => id :: (allExs subs ++ allBlks blocks)
  def allExs : List Ex → List Nat
    | [] => []
    | e :: es => allEx e ++ allExs es
  def allSt : St → List Nat
    | .mk exprs blocks => allExs exprs ++ allBlks blocks
  def allSts : List St → List Nat
    | [] => []
    | s :: ss => allSt s ++ allSts ss
  def allBlk : Blk → List Nat
    | .mk _ stmts => allSts stmts
  def allBlks : List Blk → List Nat
    | [] => []
    | b :: bs => allBlk b ++ allBlks bs
end

/-! ### Scope chain and re-assignment -/

structure Binding where
  name : String
  isMutable : Bool
deriving Repr, DecidableEq

/-- Block scopes of the current function, innermost first; the last frame is the function scope itself. -/
abbrev Frames := List (List Binding)

def findIn (n : String) (frame : List Binding) : Option Binding := frame.find? (·.name == n)

/-- `lookup_local`. -/
def lookupLocal (fs : Frames) (n : String) : Option Binding :=
  match fs with
  | [] => none
  | f :: _ => findIn n f

/-- `lookup_in_function`: this block, then the enclosing blocks up to the function scope. -/
def lookupInFunction : Frames → String → Option Binding
  | [], _ => none
  | f :: rest, n => match findIn n f with
    | some b => some b
    | none => lookupInFunction rest n

inductive Verdict where
  | accepted | mutationWithoutMut
deriving Repr, DecidableEq

/-- `check_assignment` for `name = value` (`declares`: written with `let` / `mut`). -/
def checkAssign (fs : Frames) (n : String) (declares : Bool) : Verdict :=
  match lookupLocal fs n with
  | some b => if b.isMutable then .accepted else .mutationWithoutMut
  | none =>
    if declares then .accepted
    else match lookupInFunction fs n with
      | some b => if b.isMutable then .accepted else .mutationWithoutMut
      | none => .accepted

/-- `require_mutable_root` (mod.rs): a mutation *through* `n` — `n.f = v`, `n[i] = v`, `n.bump()` with a `mut self`
method — looks `n` up through every enclosing block; the variable of a `for` loop is exempt (its elements are
written through a mutable iteration). -/
def checkMutateThrough (fs : Frames) (loopVars : List String) (n : String) : Verdict :=
  if loopVars.contains n then .accepted
  else match lookupInFunction fs n with
    | some b => if b.isMutable then .accepted else .mutationWithoutMut
    | none => .accepted

/-- The variant a refactoring could introduce: only the innermost block is searched. -/
def checkMutateThroughLocal (fs : Frames) (n : String) : Verdict :=
  match lookupLocal fs n with
  | some b => if b.isMutable then .accepted else .mutationWithoutMut
  | none => .accepted

/-- The checker before the fix: only the innermost block was searched. -/
def checkAssignOld (fs : Frames) (n : String) : Verdict :=
  match lookupLocal fs n with
  | some b => if b.isMutable then .accepted else .mutationWithoutMut
  | none => .accepted

/-! ### Match coverage -/

inductive Pat where
  | wildcard
  | binding
  | noneLiteral
  | ctor (lastSegment : String)
  | other
deriving Repr, DecidableEq

/-- The variant names the arms of a match name. -/
def coveredNames (isOption : Bool) (arms : List Pat) : List String :=
  arms.filterMap fun p => match p with
    | .ctor v => some v
    | .noneLiteral => if isOption then some "None" else none
    | _ => none

/-- `check_match_exhaustiveness` on the variant list of the subject type: the variants reported missing. -/
def missingVariants (variants : List String) (isOption : Bool) (arms : List Pat) : List String :=
  if arms.any (fun p => p == .wildcard || p == .binding) then []
  else variants.filter fun v => !(coveredNames isOption arms).contains v

/-! ### Call arguments (`validate_method_call_args`, check_expr/access.rs) -/

/-- An argument as written: `value` or `name=value`, with the type the checker computed for the value. -/
structure CArg where
  name : Option String
  ty : String
deriving Repr, DecidableEq

/-- The positional arguments, each with its index in the argument list (the `positional` vector). -/
def positionals : List CArg → Nat → List (Nat × String)
  | [], _ => []
  | a :: rest, i => match a.name with
    | none => (i, a.ty) :: positionals rest (i + 1)
    | some _ => positionals rest (i + 1)

/-- The `named` map: the last argument written with that name wins (`HashMap::insert`). -/
def findNamed (n : String) : List CArg → Nat → Option (Nat × String)
  | [], _ => none
  | a :: rest, i => match findNamed n rest (i + 1) with
    | some r => some r
    | none => if a.name = some n then some (i, a.ty) else none

/-- The loop over the parameters: a parameter takes the argument named after it, else the next positional one;
`ok actual expected` is `types_compatible`, or trait adoption when `expected` is a trait.  The result is the list
of argument indices a `type_mismatch` is reported on.  (Arity is not checked by this function.) -/
def validateArgs (ok : String → String → Bool) (args : List CArg) : List (String × String) → Nat → List Nat
  | [], _ => []
  | (pn, pt) :: ps, k =>
    match findNamed pn args 0 with
    | some (i, aty) => (if ok aty pt then [] else [i]) ++ validateArgs ok args ps k
    | none => match (positionals args 0)[k]? with
      | some (i, aty) => (if ok aty pt then [] else [i]) ++ validateArgs ok args ps (k + 1)
      | none => validateArgs ok args ps k

/-- Where the position counter of `validateArgs` ends: how many positional arguments the parameters consumed. -/
def consumedPositionals (args : List CArg) : List (String × String) → Nat → Nat
  | [], k => k
  | (pn, _) :: ps, k =>
    match findNamed pn args 0 with
    | some _ => consumedPositionals args ps k
    | none => match (positionals args 0)[k]? with
      | some _ => consumedPositionals args ps (k + 1)
      | none => consumedPositionals args ps k

/-- Arguments no parameter takes: the first surplus positional one and every keyword naming no parameter
(indices in the argument list). -/
def surplusArgs (args : List CArg) (ps : List (String × String)) : List Nat :=
  (match (positionals args 0)[consumedPositionals args ps 0]? with
   | some (i, _) => [i]
   | none => []) ++
  (List.range args.length).filter fun i => match (args[i]?).bind (·.name) with
    | some n => !(ps.map (·.1)).contains n
    | none => false

/-- `check_required_arguments`: parameters bound neither by keyword nor by position and without a default. -/
def missingParams (args : List CArg) (defaults : List String) : List (String × String) → Nat → List String
  | [], _ => []
  | (pn, _) :: ps, left =>
    if args.any (fun a => a.name == some pn) then missingParams args defaults ps left
    else if left > 0 then missingParams args defaults ps (left - 1)
    else (if defaults.contains pn then [] else [pn]) ++ missingParams args defaults ps left

def positionalCount (args : List CArg) : Nat := (args.filter fun a => a.name.isNone).length

/-- `check_param_default`: the positions of the parameters whose default value does not have the parameter's type.
A parameter is (name, declared type, type of its default value if it has one). -/
def defaultErrors (ok : String → String → Bool) (ps : List (String × String × Option String)) : List Nat :=
  (List.range ps.length).filter fun i =>
    match ps[i]? with
    | some (_, t, some d) => !ok d t
    | _ => false

/-! ### Trait adoption (`check_trait_conformance` / `check_trait_conformance_model`, check_decl.rs) -/

structure TraitSpec where
  requires : List (String × String)            -- `@requires(field: Type)`
  methods : List (String × Bool × String)      -- name, has a default body, signature

/-- The adopter's effective members (own + inherited for classes). -/
structure Adopter where
  fields : List (String × String)
  methods : List (String × String)

inductive ConfErr where
  | missingField (f : String)
  | fieldType (f : String)
  | missingMethod (m : String)
  | methodSig (m : String)
deriving Repr, DecidableEq

def lookupS (k : String) : List (String × String) → Option String
  | [] => none
  | (k', v) :: rest => if k' == k then some v else lookupS k rest

/-- The diagnostics of one adoption (`okTy found required` is `types_compatible`, `okSig required found` is
`method_sigs_compatible`).  Their order is irrelevant to the property; the implementation sorts the method part. -/
def conformance (okTy okSig : String → String → Bool) (t : TraitSpec) (a : Adopter) : List ConfErr :=
  (t.requires.flatMap fun (f, ty) => match lookupS f a.fields with
    | none => [.missingField f]
    | some fty => if okTy fty ty then [] else [.fieldType f]) ++
  (t.methods.flatMap fun (m, hasBody, sig) =>
    if hasBody then []
    else match lookupS m a.methods with
      | none => [.missingMethod m]
      | some s => if okSig sig s then [] else [.methodSig m])

end Incan.Checker
