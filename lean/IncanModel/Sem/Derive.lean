/-
Derived behaviour of models and classes (C20).

Mirrors
  * `AstLowering::extract_derives` + the Debug/Clone defaults of `lower_model` / `lower_class`
    (src/backend/ir/lower/decl.rs)
  * the attribute list `emit_struct` writes (src/backend/ir/emit/decls.rs): one `#[derive(..)]`, no per-field
    serde attributes, field identifiers = declared names (raw-escaped when they are Rust keywords; serde and
    the derive macros see the unraw name)
and gives the derived impls their meaning on a value model: serde's data model for structs (an object with one
entry per field, in declaration order, `Option` as value-or-null), Rust's derived `PartialEq` / `Ord`
(field-wise, lexicographic in declaration order) and `Hash` (a function of the field values).
-/
namespace Incan.Derive

/-! ### Derive list -/

/-- `if !has(name) { push(name) }`. -/
def addIfMissing (l : List String) (name : String) : List String :=
  if l.contains name then l else l ++ [name]

/-- Eq requires PartialEq. -/
def eqStep (l : List String) : List String := if l.contains "Eq" then addIfMissing l "PartialEq" else l
/-- PartialOrd requires PartialEq (added by a `fix:` commit). -/
def partialOrdStep (l : List String) : List String := if l.contains "PartialOrd" then addIfMissing l "PartialEq" else l
/-- Ord requires PartialOrd and Eq (and thus PartialEq). -/
def ordStep (l : List String) : List String :=
  if l.contains "Ord" then addIfMissing (addIfMissing (addIfMissing l "PartialOrd") "Eq") "PartialEq" else l

/-- `extract_derives` on the names written in `@derive(...)`. -/
def extractDerives (written : List String) : List String := ordStep (partialOrdStep (eqStep written))

/-- `lower_model` / `lower_class`: Debug and Clone are always present. -/
def structDerives (written : List String) : List String :=
  addIfMissing (addIfMissing (extractDerives written) "Debug") "Clone"

/-- What rustc requires of a derive list (supertraits of the derived traits). -/
def deriveListAccepted (ds : List String) : Bool :=
  (!ds.contains "Eq" || ds.contains "PartialEq") &&
  (!ds.contains "Ord" || (ds.contains "PartialOrd" && ds.contains "Eq" && ds.contains "PartialEq")) &&
  (!ds.contains "PartialOrd" || ds.contains "PartialEq") &&
  (!ds.contains "Copy" || ds.contains "Clone")

/-! ### Values -/

/-- Field types of the documented mapping (floats are carried as their bits: equality is bit equality only
for the non-NaN, non-zero-signed values the generator uses; no theorem depends on float arithmetic). -/
inductive Val where
  | int (n : Int)
  | bool (b : Bool)
  | str (s : List Char)
  | float (bits : Nat)
  | none_                                  -- Option: None
  | some_ (v : Val)                        -- Option: Some(v)
  | list (xs : List Val)
  | dict (kvs : List (List Char × Val))    -- Dict[str, T], entries in key order (canonical form)
  | struct (fields : List (List Char × Val))  -- model / class value: fields in declaration order
deriving Repr

/-- Abstract JSON (serde's data model; the text layer is serde_json's and is tied, not modelled). -/
inductive J where
  | null
  | bool (b : Bool)
  | num (n : Int)
  | fnum (bits : Nat)
  | str (s : List Char)
  | arr (xs : List J)
  | obj (kvs : List (List Char × J))
deriving Repr

/-- Types direct decoding, exactly as the derived `Deserialize` impl is type-directed. -/
inductive Ty where
  | int | bool | str | float
  | option (t : Ty)
  | list (t : Ty)
  | dict (t : Ty)
  | struct (fields : List (List Char × Ty))
deriving Repr

mutual
  /-- Derived `Serialize`: one entry per field under its declared name, in declaration order. -/
  def encode : Val → J
    | .int n => .num n
    | .bool b => .bool b
    | .str s => .str s
    | .float b => .fnum b
    | .none_ => .null
    | .some_ v => encode v
    | .list xs => .arr (encodeList xs)
    | .dict kvs => .obj (encodeDict kvs)
    | .struct fs => .obj (encodeFields fs)
  def encodeList : List Val → List J
    | [] => []
    | v :: vs => encode v :: encodeList vs
  def encodeDict : List (List Char × Val) → List (List Char × J)
    | [] => []
    | (k, v) :: kvs => (k, encode v) :: encodeDict kvs
  def encodeFields : List (List Char × Val) → List (List Char × J)
    | [] => []
    | (k, v) :: kvs => (k, encode v) :: encodeFields kvs
end

/-- First entry with the given key (serde rejects duplicate fields; the encoder never produces them). -/
def lookup (k : List Char) : List (List Char × J) → Option J
  | [] => none
  | (k', v) :: rest => if k' = k then some v else lookup k rest

mutual
  /-- Derived `Deserialize`, type-directed.  A struct needs every declared field (no `#[serde(default)]`). -/
  def decode : Ty → J → Option Val
    | .int, .num n => some (.int n)
    | .bool, .bool b => some (.bool b)
    | .str, .str s => some (.str s)
    | .float, .fnum b => some (.float b)
    | .option _, .null => some .none_
    | .option t, j => (decode t j).map .some_
    | .list t, .arr xs => (decodeList t xs).map .list
    | .dict t, .obj kvs => (decodeDict t kvs).map .dict
    | .struct fts, .obj kvs => (decodeFields fts kvs).map .struct
    | _, _ => none
  def decodeList : Ty → List J → Option (List Val)
    | _, [] => some []
    | t, j :: js => match decode t j, decodeList t js with
      | some v, some vs => some (v :: vs)
      | _, _ => none
  def decodeDict : Ty → List (List Char × J) → Option (List (List Char × Val))
    | _, [] => some []
    | t, (k, j) :: rest => match decode t j, decodeDict t rest with
      | some v, some vs => some ((k, v) :: vs)
      | _, _ => none
  def decodeFields : List (List Char × Ty) → List (List Char × J) → Option (List (List Char × Val))
    | [], _ => some []
    | (f, t) :: fts, kvs => match lookup f kvs with
      | none => none
      | some j => match decode t j, decodeFields fts kvs with
        | some v, some vs => some ((f, v) :: vs)
        | _, _ => none
end

mutual
  /-- `v` is a value of type `t` (what the checker guarantees for a constructed model). -/
  def hasTy : Val → Ty → Bool
    | .int _, .int => true
    | .bool _, .bool => true
    | .str _, .str => true
    | .float _, .float => true
    | .none_, .option _ => true
    | .some_ v, .option t => hasTy v t
    | .list xs, .list t => allHaveTy xs t
    | .dict kvs, .dict t => dictHasTy kvs t
    | .struct fs, .struct fts => fieldsHaveTy fs fts
    | _, _ => false
  def allHaveTy : List Val → Ty → Bool
    | [], _ => true
    | v :: vs, t => hasTy v t && allHaveTy vs t
  def dictHasTy : List (List Char × Val) → Ty → Bool
    | [], _ => true
    | (_, v) :: kvs, t => hasTy v t && dictHasTy kvs t
  def fieldsHaveTy : List (List Char × Val) → List (List Char × Ty) → Bool
    | [], [] => true
    | (f, v) :: fs, (g, t) :: fts => f == g && hasTy v t && fieldsHaveTy fs fts
    | _, _ => false
end

mutual
  /-- Well-formed field types: `Option[T]` only over a non-option `T` (`Some(None)` would encode as `null` and
  decode as `None`: serde's documented loss; the documented mapping has no nested options), and distinct
  field names in every struct (the checker rejects duplicate fields). -/
  def wfTy : Ty → Bool
    | .option (.option _) => false
    | .option t => wfTy t
    | .list t => wfTy t
    | .dict t => wfTy t
    | .struct fts => wfFields fts && distinctNames fts
    | _ => true
  def wfFields : List (List Char × Ty) → Bool
    | [] => true
    | (_, t) :: fts => wfTy t && wfFields fts
  def distinctNames : List (List Char × Ty) → Bool
    | [] => true
    | (f, _) :: fts => !(nameIn f fts) && distinctNames fts
  def nameIn : List Char → List (List Char × Ty) → Bool
    | _, [] => false
    | f, (g, _) :: fts => f == g || nameIn f fts
end

/-! ### Derived comparison and hashing -/

mutual
  /-- Derived `PartialEq`: field-wise. -/
  def eqV : Val → Val → Bool
    | .int a, .int b => a == b
    | .bool a, .bool b => a == b
    | .str a, .str b => a == b
    | .float a, .float b => a == b
    | .none_, .none_ => true
    | .some_ a, .some_ b => eqV a b
    | .list a, .list b => eqList a b
    | .dict a, .dict b => eqDict a b
    | .struct a, .struct b => eqFields a b
    | _, _ => false
  def eqList : List Val → List Val → Bool
    | [], [] => true
    | a :: as, b :: bs => eqV a b && eqList as bs
    | _, _ => false
  def eqDict : List (List Char × Val) → List (List Char × Val) → Bool
    | [], [] => true
    | (k, a) :: as, (l, b) :: bs => k == l && eqV a b && eqDict as bs
    | _, _ => false
  def eqFields : List (List Char × Val) → List (List Char × Val) → Bool
    | [], [] => true
    | (k, a) :: as, (l, b) :: bs => k == l && eqV a b && eqFields as bs
    | _, _ => false
end

/-- Byte-wise order of UTF-8 strings = order by code point sequence. -/
def cmpStr : List Char → List Char → Ordering
  | [], [] => .eq
  | [], _ :: _ => .lt
  | _ :: _, [] => .gt
  | a :: as, b :: bs => if a.toNat < b.toNat then .lt else if a.toNat > b.toNat then .gt else cmpStr as bs

def cmpInt (a b : Int) : Ordering := if a < b then .lt else if b < a then .gt else .eq

mutual
  /-- Derived `Ord`: lexicographic over the fields in declaration order (`None < Some(_)`, `false < true`,
  lists lexicographic). -/
  def cmpV : Val → Val → Ordering
    | .int a, .int b => cmpInt a b
    | .bool a, .bool b => cmpInt a.toNat b.toNat
    | .str a, .str b => cmpStr a b
    | .none_, .none_ => .eq
    | .none_, .some_ _ => .lt
    | .some_ _, .none_ => .gt
    | .some_ a, .some_ b => cmpV a b
    | .list a, .list b => cmpList a b
    | .struct a, .struct b => cmpFields a b
    | _, _ => .eq
  def cmpList : List Val → List Val → Ordering
    | [], [] => .eq
    | [], _ :: _ => .lt
    | _ :: _, [] => .gt
    | a :: as, b :: bs => match cmpV a b with
      | .eq => cmpList as bs
      | o => o
  def cmpFields : List (List Char × Val) → List (List Char × Val) → Ordering
    | [], [] => .eq
    | [], _ :: _ => .lt
    | _ :: _, [] => .gt
    | (_, a) :: as, (_, b) :: bs => match cmpV a b with
      | .eq => cmpFields as bs
      | o => o
end

mutual
  /-- Derived `Hash` feeds the fields, in order, to the hasher: the hash is a function of this sequence. -/
  def hashInput : Val → List Int
    | .int n => [0, n]
    | .bool b => [1, if b then 1 else 0]
    | .str s => 2 :: (s.map fun c => (c.toNat : Int)) ++ [255]
    | .float b => [3, b]
    | .none_ => [4]
    | .some_ v => 5 :: hashInput v
    | .list xs => 6 :: (xs.length : Int) :: hashList xs
    | .dict kvs => 7 :: hashDict kvs
    | .struct fs => hashFields fs
  def hashList : List Val → List Int
    | [] => []
    | v :: vs => hashInput v ++ hashList vs
  def hashDict : List (List Char × Val) → List Int
    | [] => []
    | (k, v) :: kvs => (k.map fun c => (c.toNat : Int)) ++ [255] ++ hashInput v ++ hashDict kvs
  def hashFields : List (List Char × Val) → List Int
    | [] => []
    | (_, v) :: kvs => hashInput v ++ hashFields kvs
end

/-! ### Inherited fields and methods (`lower_class`, `collect_inherited_fields`, `collect_inherited_methods`,
src/backend/ir/lower/decl.rs and lower/mod.rs) -/

/-- A class declaration as the lowering pass keeps it in `class_decls`: its name, the class it extends and what it
declares itself (`α` = its fields, or the names of its methods). -/
structure Decl (α : Type) where
  name : String
  parent : Option String
  own : α

def findDecl {α : Type} (cs : List (Decl α)) (n : String) : Option (Decl α) := cs.find? (fun c => c.name == n)

/-- A linear chain of declarations, root first: each level extends the one before it. -/
def chainDecls {α : Type} : List (String × α) → Option String → List (Decl α)
  | [], _ => []
  | (n, x) :: rest, parent => ⟨n, parent, x⟩ :: chainDecls rest (some n)

abbrev Fields := List (List Char × Ty)

/-- `collect_inherited_fields`: the grandparents' fields first, then the parent's own.  The implementation recurses
without a bound; the checker rejects cyclic chains (a `fix:` commit), so the number of classes bounds the depth. -/
def inheritedFields (cs : List (Decl Fields)) : Nat → String → Fields
  | 0, _ => []
  | fuel + 1, n => match findDecl cs n with
    | none => []
    | some c => (match c.parent with
      | some g => inheritedFields cs fuel g
      | none => []) ++ c.own

/-- The fields of the struct emitted for a class: inherited ones first, then its own. -/
def classFields (cs : List (Decl Fields)) (c : Decl Fields) : Fields :=
  (match c.parent with
  | some p => inheritedFields cs cs.length p
  | none => []) ++ c.own

/-- `methods.retain(|e| e.name != m.name); methods.push(m)` for each method the class declares; an entry is
(method name, class whose body it is). -/
def addOwn (acc : List (String × String)) (owner : String) : List String → List (String × String)
  | [] => acc
  | m :: ms => addOwn (acc.filter (fun e => e.1 != m) ++ [(m, owner)]) owner ms

/-- `collect_inherited_methods`: the ancestors' methods, overridden by the class's own. -/
def inheritedMethods (cs : List (Decl (List String))) : Nat → String → List (String × String)
  | 0, _ => []
  | fuel + 1, n => match findDecl cs n with
    | none => []
    | some c => addOwn (match c.parent with
      | some g => inheritedMethods cs fuel g
      | none => []) c.name c.own

/-- Which class's body a call of `m` on an instance runs (the impl block holds exactly these entries). -/
def dispatch (entries : List (String × String)) (m : String) : Option String :=
  (entries.find? (fun e => e.1 == m)).map (·.2)

end Incan.Derive
