import IncanModel.Generated.Keywords
/-
Identifier emission (C13).  Mirrors `escape_keyword` (src/backend/ir/emit/mod.rs) over the generated keyword
table, and says what rustc's lexer makes of the result.
-/
namespace Incan.Names
open Generated

/-- What the emitted identifier is to rustc. -/
inductive RustTok where
  | plain (s : String)     -- `s`
  | raw (s : String)       -- `r#s`
deriving Repr, DecidableEq

/-- `escape_keyword`, as a token (`format_ident!` turns the `r#` prefix into a raw identifier). -/
def emitTok (n : String) : RustTok :=
  if n = "self" ∨ n = "Self" then .plain n
  else if n ∈ rustKeywords then .raw n
  else .plain n

/-- Keywords rustc refuses as raw identifiers. -/
def nonRawable : List String := ["self", "Self", "crate", "super"]

/-- Every Rust 2021 strict or reserved keyword (The Rust Reference), transcribed independently of the repo. -/
def reference2021 : List String :=
  ["as", "break", "const", "continue", "crate", "else", "enum", "extern", "false", "fn", "for", "if", "impl", "in",
   "let", "loop", "match", "mod", "move", "mut", "pub", "ref", "return", "self", "Self", "static", "struct", "super",
   "trait", "true", "type", "unsafe", "use", "where", "while", "async", "await", "dyn", "abstract", "become", "box",
   "do", "final", "macro", "override", "priv", "typeof", "unsized", "virtual", "yield", "try"]

/-- rustc accepts the token as an identifier in binding and use positions. -/
def validTok : RustTok → Bool
  | .plain s => !(reference2021.contains s)
  | .raw s => !(nonRawable.contains s)

/-- Binding positions where the emitter builds an identifier from a user-chosen name. -/
inductive Pos where
  | local_ | param | namedArg | function | field | method | typeName | forVar | closureParam | matchBinding
  | comprehensionVar | enumName | variant | const | traitName | traitMethod | staticMethod | structLiteralField
  | patternField
deriving Repr, DecidableEq

/-- After the fix every position goes through `escape_keyword`. -/
def emitAt (_p : Pos) (n : String) : RustTok := emitTok n

/-- Names the generated code binds itself and user expressions are evaluated under (f-string expansion). -/
def generatedTemporaries : List String := ["__parts", "__args"]

/-- Type names the generated code refers to unqualified. -/
def reliedOnTypeNames : List String := ["String", "Vec", "HashMap", "HashSet", "Option", "Result", "Box", "i64", "f64", "bool"]

end Incan.Names
