/-
Validated newtype construction (C17).

Mirrors
  * `AstLowering::select_newtype_checked_ctor`      (src/backend/ir/lower/mod.rs)
  * the `T(x)` rewrite in `lower_expr`'s Call arm   (src/backend/ir/lower/expr.rs)
  * the `current_impl_type` exemption               (src/backend/ir/lower/decl.rs)
and gives the lowered expressions a run-time meaning in which a validation hook is a partial function
`hook T : Val → Option Val` (`none` = `Err(..)`, `some u` = `Ok(T(u))`).
-/
namespace Incan.Newtype

/-- Syntactic types as written in the source (`ast::Type`, the part the selection looks at). -/
inductive Ty where
  | simple (n : String)
  | generic1 (n : String) (a : Ty)             -- `List[int]`, `Option[T]`
  | generic2 (n : String) (a b : Ty)           -- `Result[T, E]`, `Dict[K, V]`
deriving Repr, DecidableEq

structure Method where
  name : String
  hasReceiver : Bool
  params : List Ty
  ret : Ty
deriving Repr, DecidableEq

structure Decl where
  name : String
  underlying : Ty
  methods : List Method
deriving Repr

def isResultOf (ty : Ty) (newtype : String) : Bool :=
  match ty with
  | .generic2 n (.simple t) _ => n == "Result" && t == newtype
  | .generic1 n (.simple t) => n == "Result" && t == newtype   -- `args.is_empty()` is the only arity check
  | _ => false

def isCandidate (d : Decl) (m : Method) : Bool :=
  !m.hasReceiver && m.name.startsWith "from_" && m.params == [d.underlying] && isResultOf m.ret d.name

/-- `select_newtype_checked_ctor`. -/
def selectHook (d : Decl) : Option String :=
  let cands := d.methods.filter (isCandidate d)
  if cands.any (fun m => m.name == "from_underlying") then some "from_underlying"
  else match cands with
    | [m] => some m.name
    | _ => none

/-- Source expressions: every construct that can hold a construction site is one of these shapes. -/
inductive Expr where
  | lit (v : Int)
  | var (x : String)
  | ctor (T : String) (arg : Expr)          -- `T(arg)`: call of a capitalised/known type name, one positional argument
  | ctorNamed (T : String) (arg : Expr)     -- `T(k=arg)`: not rewritten (and not emittable for a newtype)
  | alias (T : String) (arg : Expr)         -- `f = T` … `f(arg)`: the type name used as a function value
  | pair (a b : Expr)                       -- two sub-expressions evaluated left to right (list, tuple, arguments, dict, fields)
  | wrap (a : Expr)                         -- one sub-expression kept inside a value (Some/Ok/field/return/element)
  | fst (a : Expr) | snd (a : Expr) | unwrap (a : Expr)
  | under (a : Expr)                        -- `.0`
  | add (a b : Expr)
deriving Repr

inductive Ir where
  | lit (v : Int)
  | var (x : String)
  | raw (T : String) (arg : Ir)                       -- `T(arg)` tuple-struct literal
  | checked (T hook : String) (arg : Ir)              -- `T::hook(arg).expect("validated newtype construction failed: T::hook")`
  | unsupported                                       -- struct literal with a named field on a tuple struct
  | pair (a b : Ir)
  | wrap (a : Ir)
  | fst (a : Ir) | snd (a : Ir) | unwrap (a : Ir)
  | under (a : Ir)
  | add (a b : Ir)
deriving Repr

/-- The Call-arm rewrite.  `hooks` is `newtype_checked_ctor`, `cur` is `current_impl_type`. -/
def lower (hooks : String → Option String) (cur : Option String) : Expr → Ir
  | .lit v => .lit v
  | .var x => .var x
  | .ctor T a =>
    match hooks T with
    | some h => if cur = some T then .raw T (lower hooks cur a) else .checked T h (lower hooks cur a)
    | none => .raw T (lower hooks cur a)
  | .ctorNamed _ _ => .unsupported
  | .alias T a => .raw T (lower hooks cur a)
  | .pair a b => .pair (lower hooks cur a) (lower hooks cur b)
  | .wrap a => .wrap (lower hooks cur a)
  | .fst a => .fst (lower hooks cur a)
  | .snd a => .snd (lower hooks cur a)
  | .unwrap a => .unwrap (lower hooks cur a)
  | .under a => .under (lower hooks cur a)
  | .add a b => .add (lower hooks cur a) (lower hooks cur b)

inductive Val where
  | int (n : Int)
  | nt (T : String) (v : Val)
  | pair (a b : Val)
  | wrap (a : Val)
deriving Repr, DecidableEq

inductive Stop where
  | validation (T hook : String)     -- panic "validated newtype construction failed: T::hook: <err>"
  | stuck                            -- ill-typed at run time (never reached for programs rustc accepts)
deriving Repr, DecidableEq

deriving instance DecidableEq for Except

/-- Run-time meaning of lowered expressions. -/
def eval (hook : String → Val → Option Val) (env : String → Option Val) : Ir → Except Stop Val
  | .lit v => .ok (.int v)
  | .var x => match env x with | some v => .ok v | none => .error .stuck
  | .raw T a => match eval hook env a with
    | .ok v => .ok (.nt T v)
    | .error e => .error e
  | .checked T h a => match eval hook env a with
    | .ok v => (match hook T v with
      | some u => .ok (.nt T u)
      | none => .error (.validation T h))
    | .error e => .error e
  | .unsupported => .error .stuck
  | .pair a b => match eval hook env a with
    | .ok va => (match eval hook env b with
      | .ok vb => .ok (.pair va vb)
      | .error e => .error e)
    | .error e => .error e
  | .wrap a => match eval hook env a with
    | .ok v => .ok (.wrap v)
    | .error e => .error e
  | .fst a => match eval hook env a with
    | .ok (.pair x _) => .ok x
    | .ok _ => .error .stuck
    | .error e => .error e
  | .snd a => match eval hook env a with
    | .ok (.pair _ y) => .ok y
    | .ok _ => .error .stuck
    | .error e => .error e
  | .unwrap a => match eval hook env a with
    | .ok (.wrap x) => .ok x
    | .ok _ => .error .stuck
    | .error e => .error e
  | .under a => match eval hook env a with
    | .ok (.nt _ x) => .ok x
    | .ok _ => .error .stuck
    | .error e => .error e
  | .add a b => match eval hook env a with
    | .ok (.int x) => (match eval hook env b with
      | .ok (.int y) => .ok (.int (x + y))
      | .ok _ => .error .stuck
      | .error e => .error e)
    | .ok _ => .error .stuck
    | .error e => .error e

/-- Every `T`-tagged value inside `v`, for a validated `T` other than `cur`, came out of `T`'s hook. -/
def Inv (hooks : String → Option String) (hook : String → Val → Option Val) (cur : Option String) : Val → Prop
  | .int _ => True
  | .nt T u => ((hooks T).isSome = true → cur ≠ some T → ∃ x, hook T x = some u) ∧ Inv hooks hook cur u
  | .pair a b => Inv hooks hook cur a ∧ Inv hooks hook cur b
  | .wrap a => Inv hooks hook cur a

/-- Sites the rewrite recognises: no type name used as a function value. -/
def NoAlias : Expr → Prop
  | .lit _ | .var _ => True
  | .ctor _ a | .ctorNamed _ a | .wrap a | .fst a | .snd a | .unwrap a | .under a => NoAlias a
  | .alias _ _ => False
  | .pair a b | .add a b => NoAlias a ∧ NoAlias b

/-- Nominal typing as the checker applies it to named types (`types_compatible` on `Named`). -/
def namedCompatible (expected actual : String) : Bool := expected == actual

end Incan.Newtype
