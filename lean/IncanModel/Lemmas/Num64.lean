import IncanModel.Kernel.Num
import IncanModel.Lemmas.IntDiv
/-
Bridge between `Int64` (the model of Rust's `i64`) and `Int`.
-/
namespace Incan.Num
open Incan.IntDiv

theorem toInt_zero : (0 : Int64).toInt = 0 := by decide
theorem toInt_negOne : (-1 : Int64).toInt = -1 := by decide
theorem toInt_one : (1 : Int64).toInt = 1 := by decide

theorem range (a : Int64) : -2^63 ≤ a.toInt ∧ a.toInt < 2^63 := ⟨a.le_toInt, a.toInt_lt⟩

theorem eq_zero_iff (a : Int64) : a = 0 ↔ a.toInt = 0 := by
  rw [← Int64.toInt_inj, toInt_zero]

theorem eq_negOne_iff (a : Int64) : a = -1 ↔ a.toInt = -1 := by
  rw [← Int64.toInt_inj, toInt_negOne]

theorem eq_min_iff (a : Int64) : a = Int64.minValue ↔ a.toInt = -2^63 := by
  rw [← Int64.toInt_inj, Int64.toInt_minValue]

theorem pos_iff (a : Int64) : a > 0 ↔ a.toInt > 0 := by
  show 0 < a ↔ _
  rw [Int64.lt_iff_toInt_lt, toInt_zero]

theorem neg_iff (a : Int64) : a < 0 ↔ a.toInt < 0 := by
  rw [Int64.lt_iff_toInt_lt, toInt_zero]

theorem adj_iff (r b : Int64) :
    ((r > 0 ∧ b < 0) ∨ (r < 0 ∧ b > 0)) ↔ adj r.toInt b.toInt := by
  unfold adj
  rw [pos_iff, pos_iff, neg_iff, neg_iff]

theorem bmod_of_range (x : Int) (h : -2^63 ≤ x ∧ x < 2^63) : x.bmod (2^64) = x := by
  apply Int.bmod_eq_of_le <;> omega

theorem toInt_div_safe (a b : Int64) (h : ¬(a = Int64.minValue ∧ b = -1)) :
    (a / b).toInt = a.toInt.tdiv b.toInt := by
  rw [Int64.toInt_div]
  apply bmod_of_range
  apply tdiv_in_range _ _ (range a)
  rw [eq_min_iff, eq_negOne_iff] at h
  exact h

theorem toInt_add_range (a b : Int64) (h : -2^63 ≤ a.toInt + b.toInt ∧ a.toInt + b.toInt < 2^63) :
    (a + b).toInt = a.toInt + b.toInt := by
  rw [Int64.toInt_add]; exact bmod_of_range _ h

theorem toInt_sub_one (q : Int64) (h : -2^63 < q.toInt) : (q - 1).toInt = q.toInt - 1 := by
  rw [Int64.toInt_sub, toInt_one]
  have := range q
  apply bmod_of_range; omega

end Incan.Num
