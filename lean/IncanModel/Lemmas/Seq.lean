import IncanModel.Kernel.Seq
import IncanModel.Lemmas.Num64
/-
Helper lemmas for C05: the `Int64` loops of the slice/range code against the unbounded-`Int`
reference loops.
-/
namespace Incan.Seq
open Incan.Num (bmod_of_range toInt_zero toInt_one toInt_negOne pos_iff neg_iff)

/-! ### Reference (unbounded integers): what Python does -/

/-- `i, i+k, i+2k, …` while `< stop` (Python, `k > 0`); `n` bounds the number of items. -/
def upIdx (i stop step : Int) : Nat → List Int
  | 0 => []
  | n + 1 => if i < stop then i :: upIdx (i + step) stop step n else []

/-- `i, i+k, i+2k, …` while `> stop` (Python, `k < 0`). -/
def downIdx (i stop step : Int) : Nat → List Int
  | 0 => []
  | n + 1 => if i > stop then i :: downIdx (i + step) stop step n else []

def getInt (xs : List α) (j : Int) : Option α := if j < 0 then none else xs[j.toNat]?

/-! ### `Int64` facts -/

theorem lt_iff (a b : Int64) : a < b ↔ a.toInt < b.toInt := Int64.lt_iff_toInt_lt
theorem le_iff (a b : Int64) : a ≤ b ↔ a.toInt ≤ b.toInt := Int64.le_iff_toInt_le
theorem gt_iff (a b : Int64) : a > b ↔ a.toInt > b.toInt := Int64.lt_iff_toInt_lt
theorem ge_iff (a b : Int64) : a ≥ b ↔ a.toInt ≥ b.toInt := Int64.le_iff_toInt_le

theorem toInt_max : Int64.maxValue.toInt = 9223372036854775807 := by decide
theorem toInt_min : Int64.minValue.toInt = -9223372036854775808 := by decide

theorem satAdd_toInt (a b : Int64) :
    (satAdd a b).toInt =
      if a.toInt + b.toInt > 9223372036854775807 then 9223372036854775807
      else if a.toInt + b.toInt < -9223372036854775808 then -9223372036854775808
      else a.toInt + b.toInt := by
  unfold satAdd
  simp only
  split
  · exact toInt_max
  · split
    · exact toInt_min
    · rw [Int64.toInt_add]; apply bmod_of_range; omega

theorem toInt_ofInt_of_range (x : Int) (h : -2^63 ≤ x ∧ x < 2^63) : (Int64.ofInt x).toInt = x := by
  rw [Int64.toInt_ofInt]; exact bmod_of_range x h

theorem lenI64_toInt (xs : List α) (h : xs.length < 2^63) : (lenI64 xs).toInt = xs.length := by
  unfold lenI64; apply toInt_ofInt_of_range; omega

theorem getAt_eq (xs : List α) (i : Int64) : getAt xs i = getInt xs i.toInt := by
  unfold getAt getInt
  by_cases h : i < 0
  · rw [if_pos h, if_pos ((neg_iff i).1 h)]
  · rw [if_neg h, if_neg (fun h' => h ((neg_iff i).2 h'))]

/-! ### The loops -/

/-- Upward loop: the `Int64` loop with saturating step equals the unbounded loop, for every fuel,
as long as the bound `stop` is an `Int64` (so a saturated index is past it). -/
theorem loopUp_eq (xs : List α) (stop step : Int64) (hstep : step.toInt > 0) (f : Nat) (i : Int64) (j : Int)
    (h : i.toInt = j ∨ (i.toInt ≥ stop.toInt ∧ j ≥ stop.toInt)) :
    loopUp xs stop step f i = (upIdx j stop.toInt step.toInt f).filterMap (getInt xs) := by
  induction f generalizing i j with
  | zero => simp [loopUp, upIdx]
  | succ f ih =>
    unfold loopUp upIdx
    rcases h with h | ⟨h1, h2⟩
    · subst h
      by_cases hlt : i < stop
      · rw [if_pos hlt, if_pos ((lt_iff _ _).1 hlt)]
        rw [List.filterMap_cons, ← getAt_eq]
        have hrec := ih (satAdd i step) (i.toInt + step.toInt) (by
          rw [satAdd_toInt]
          have := Incan.Num.range i; have := Incan.Num.range step; have := Incan.Num.range stop
          split
          · right; omega
          · split
            · omega
            · left; rfl)
        rw [hrec]
        cases getAt xs i <;> simp
      · rw [if_neg hlt, if_neg (fun h => hlt ((lt_iff _ _).2 h))]; simp
    · rw [if_neg (fun h => by have := (lt_iff _ _).1 h; omega), if_neg (by omega)]; simp

theorem loopDown_eq (xs : List α) (stop step : Int64) (hstep : step.toInt < 0) (f : Nat) (i : Int64) (j : Int)
    (h : i.toInt = j ∨ (i.toInt ≤ stop.toInt ∧ j ≤ stop.toInt)) :
    loopDown xs stop step f i = (downIdx j stop.toInt step.toInt f).filterMap (getInt xs) := by
  induction f generalizing i j with
  | zero => simp [loopDown, downIdx]
  | succ f ih =>
    unfold loopDown downIdx
    rcases h with h | ⟨h1, h2⟩
    · subst h
      by_cases hgt : i > stop
      · rw [if_pos hgt, if_pos ((gt_iff _ _).1 hgt)]
        rw [List.filterMap_cons, ← getAt_eq]
        have hrec := ih (satAdd i step) (i.toInt + step.toInt) (by
          rw [satAdd_toInt]
          have := Incan.Num.range i; have := Incan.Num.range step; have := Incan.Num.range stop
          split
          · omega
          · split
            · right; omega
            · left; rfl)
        rw [hrec]
        cases getAt xs i <;> simp
      · rw [if_neg hgt, if_neg (fun h => hgt ((gt_iff _ _).2 h))]; simp
    · rw [if_neg (fun h => by have := (gt_iff _ _).1 h; omega), if_neg (by omega)]; simp

/-- Fuel beyond the distance to the bound changes nothing (the loop has already stopped). -/
theorem upIdx_fuel (i stop step : Int) (hstep : step > 0) (n m : Nat)
    (hn : (stop - i).toNat ≤ n) (hm : (stop - i).toNat ≤ m) : upIdx i stop step n = upIdx i stop step m := by
  induction n generalizing i m with
  | zero =>
    have : ¬ i < stop := by omega
    cases m with
    | zero => rfl
    | succ m => simp [upIdx, this]
  | succ n ih =>
    cases m with
    | zero =>
      have : ¬ i < stop := by omega
      simp [upIdx, this]
    | succ m =>
      unfold upIdx
      by_cases h : i < stop
      · rw [if_pos h, if_pos h, ih (i + step) m (by omega) (by omega)]
      · rw [if_neg h, if_neg h]

theorem downIdx_fuel (i stop step : Int) (hstep : step < 0) (n m : Nat)
    (hn : (i - stop).toNat ≤ n) (hm : (i - stop).toNat ≤ m) : downIdx i stop step n = downIdx i stop step m := by
  induction n generalizing i m with
  | zero =>
    have : ¬ i > stop := by omega
    cases m with
    | zero => rfl
    | succ m => simp [downIdx, this]
  | succ n ih =>
    cases m with
    | zero =>
      have : ¬ i > stop := by omega
      simp [downIdx, this]
    | succ m =>
      unfold downIdx
      by_cases h : i > stop
      · rw [if_pos h, if_pos h, ih (i + step) m (by omega) (by omega)]
      · rw [if_neg h, if_neg h]

/-- Every index produced lies in `[i, stop)`. -/
theorem upIdx_mem (i stop step : Int) (hstep : step > 0) (n : Nat) (k : Int) (hk : k ∈ upIdx i stop step n) :
    i ≤ k ∧ k < stop := by
  induction n generalizing i with
  | zero => simp [upIdx] at hk
  | succ n ih =>
    unfold upIdx at hk
    by_cases h : i < stop
    · rw [if_pos h] at hk
      rcases List.mem_cons.1 hk with rfl | hk
      · omega
      · have := ih (i + step) hk; omega
    · rw [if_neg h] at hk; simp at hk

theorem downIdx_mem (i stop step : Int) (hstep : step < 0) (n : Nat) (k : Int) (hk : k ∈ downIdx i stop step n) :
    stop < k ∧ k ≤ i := by
  induction n generalizing i with
  | zero => simp [downIdx] at hk
  | succ n ih =>
    unfold downIdx at hk
    by_cases h : i > stop
    · rw [if_pos h] at hk
      rcases List.mem_cons.1 hk with rfl | hk
      · omega
      · have := ih (i + step) hk; omega
    · rw [if_neg h] at hk; simp at hk

end Incan.Seq

namespace Incan.Seq
open Incan.Num (bmod_of_range toInt_zero toInt_one toInt_negOne pos_iff neg_iff)

/-- CPython's `PySlice_AdjustIndices` for one bound (`dflt` is used when the bound is omitted). -/
def adjIdx (len step : Int) (v : Option Int) (dflt : Int) : Int :=
  match v with
  | none => dflt
  | some x =>
    let x := if x < 0 then x + len else x
    if step > 0 then (if x < 0 then 0 else if x > len then len else x)
    else (if x < -1 then -1 else if x > len - 1 then len - 1 else x)

theorem clamp_toInt (x lo hi : Int64) :
    (clamp x lo hi).toInt =
      if x.toInt < lo.toInt then lo.toInt else if x.toInt > hi.toInt then hi.toInt else x.toInt := by
  unfold clamp
  by_cases h1 : x < lo
  · rw [if_pos h1, if_pos ((lt_iff _ _).1 h1)]
  · rw [if_neg h1, if_neg (fun h => h1 ((lt_iff _ _).2 h))]
    by_cases h2 : x > hi
    · rw [if_pos h2, if_pos ((gt_iff _ _).1 h2)]
    · rw [if_neg h2, if_neg (fun h => h2 ((gt_iff _ _).2 h))]

theorem addLen_toInt (x len : Int64) (hx : x.toInt < 0) (hl : 0 ≤ len.toInt) :
    (x + len).toInt = x.toInt + len.toInt := by
  rw [Int64.toInt_add]; apply bmod_of_range
  have := Incan.Num.range x; have := Incan.Num.range len; omega

theorem subOne_toInt (len : Int64) (hl : 0 ≤ len.toInt) : (len - 1).toInt = len.toInt - 1 := by
  rw [Int64.toInt_sub, toInt_one]; apply bmod_of_range
  have := Incan.Num.range len; omega

/-- One normalised bound of the code = CPython's adjusted bound. `isEnd` selects the code path for
`end` (which only shifts a negative value when it was given explicitly). -/
theorem bound_start (len step : Int64) (hl : 0 ≤ len.toInt) (v : Option Int64) :
    let dflt : Int64 := if step > 0 then 0 else len - 1
    let s0 := v.getD dflt
    let s1 := if s0 < 0 then s0 + len else s0
    (if step > 0 then clamp s1 0 len else clamp s1 (-1) (len - 1)).toInt =
      adjIdx len.toInt step.toInt (v.map Int64.toInt) (if step.toInt > 0 then 0 else len.toInt - 1) := by
  intro dflt s0 s1
  have hsub := subOne_toInt len hl
  by_cases hstep : step > 0
  · have hstep' := (pos_iff step).1 hstep
    simp only [hstep, hstep', if_true]
    rw [clamp_toInt, toInt_zero]
    cases v with
    | none =>
      simp only [adjIdx, s1, s0, dflt, Option.getD, hstep, if_true, Option.map]
      have : ¬ ((0 : Int64) < 0) := by decide
      rw [if_neg this, toInt_zero]; omega
    | some x =>
      simp only [adjIdx, s1, s0, Option.getD, Option.map, hstep', if_true]
      by_cases hx : x < 0
      · have hx' := (neg_iff x).1 hx
        rw [if_pos hx, if_pos hx', addLen_toInt x len hx' hl]
      · have hx' : ¬ x.toInt < 0 := fun h => hx ((neg_iff x).2 h)
        rw [if_neg hx]
        simp only [hx', if_false]
  · have hstep' : ¬ step.toInt > 0 := fun h => hstep ((pos_iff step).2 h)
    simp only [hstep, hstep', if_false]
    rw [clamp_toInt, toInt_negOne, hsub]
    cases v with
    | none =>
      simp only [adjIdx, s1, s0, dflt, Option.getD, hstep, if_false, Option.map]
      by_cases hd : len - 1 < 0
      · have hd' := (neg_iff _).1 hd
        rw [if_pos hd, addLen_toInt _ len hd' hl, hsub]
        rw [hsub] at hd'
        omega
      · have hd' : ¬ (len - 1).toInt < 0 := fun h => hd ((neg_iff _).2 h)
        rw [if_neg hd, hsub]
        rw [hsub] at hd'
        omega
    | some x =>
      simp only [adjIdx, s1, s0, Option.getD, Option.map, hstep', if_false]
      by_cases hx : x < 0
      · have hx' := (neg_iff x).1 hx
        rw [if_pos hx, if_pos hx', addLen_toInt x len hx' hl]
      · have hx' : ¬ x.toInt < 0 := fun h => hx ((neg_iff x).2 h)
        rw [if_neg hx]
        simp only [hx', if_false]

theorem bound_end (len step : Int64) (hl : 0 ≤ len.toInt) (v : Option Int64) :
    let dflt : Int64 := if step > 0 then len else -1
    let e0 := v.getD dflt
    let e1 := if v.isSome ∧ e0 < 0 then e0 + len else e0
    (if step > 0 then clamp e1 0 len else clamp e1 (-1) (len - 1)).toInt =
      adjIdx len.toInt step.toInt (v.map Int64.toInt) (if step.toInt > 0 then len.toInt else -1) := by
  intro dflt e0 e1
  have hsub := subOne_toInt len hl
  by_cases hstep : step > 0
  · have hstep' := (pos_iff step).1 hstep
    simp only [hstep, hstep', if_true]
    rw [clamp_toInt, toInt_zero]
    cases v with
    | none =>
      simp only [adjIdx, e1, e0, dflt, Option.getD, hstep, if_true, Option.map, Option.isSome]
      simp only [Bool.false_eq_true, false_and, if_false]
      omega
    | some x =>
      simp only [adjIdx, e1, e0, Option.getD, Option.map, hstep', if_true, Option.isSome, true_and]
      by_cases hx : x < 0
      · have hx' := (neg_iff x).1 hx
        rw [if_pos hx, if_pos hx', addLen_toInt x len hx' hl]
      · have hx' : ¬ x.toInt < 0 := fun h => hx ((neg_iff x).2 h)
        rw [if_neg hx]
        simp only [hx', if_false]
  · have hstep' : ¬ step.toInt > 0 := fun h => hstep ((pos_iff step).2 h)
    simp only [hstep, hstep', if_false]
    rw [clamp_toInt, toInt_negOne, hsub]
    cases v with
    | none =>
      simp only [adjIdx, e1, e0, dflt, Option.getD, hstep, if_false, Option.map, Option.isSome]
      simp only [Bool.false_eq_true, false_and, if_false, toInt_negOne]
      omega
    | some x =>
      simp only [adjIdx, e1, e0, Option.getD, Option.map, hstep', if_false, Option.isSome, true_and]
      by_cases hx : x < 0
      · have hx' := (neg_iff x).1 hx
        rw [if_pos hx, if_pos hx', addLen_toInt x len hx' hl]
      · have hx' : ¬ x.toInt < 0 := fun h => hx ((neg_iff x).2 h)
        rw [if_neg hx]
        simp only [hx', if_false]

end Incan.Seq

namespace Incan.Seq
open Incan.Num (pos_iff neg_iff)

theorem adjIdx_range_up (len step : Int) (hl : 0 ≤ len) (hs : step > 0) (v : Option Int) (d : Int)
    (hd : 0 ≤ d ∧ d ≤ len) : 0 ≤ adjIdx len step v d ∧ adjIdx len step v d ≤ len := by
  unfold adjIdx
  cases v with
  | none => exact hd
  | some x => simp only [hs, if_true]; repeat' split <;> omega

theorem adjIdx_range_down (len step : Int) (hl : 0 ≤ len) (hs : ¬ step > 0) (v : Option Int) (d : Int)
    (hd : -1 ≤ d ∧ d ≤ len - 1) : -1 ≤ adjIdx len step v d ∧ adjIdx len step v d ≤ len - 1 := by
  unfold adjIdx
  cases v with
  | none => exact hd
  | some x => simp only [hs, if_false]; repeat' split <;> omega

def startBound (len : Int64) (start : Option Int64) (step : Int64) : Int64 :=
  let dflt : Int64 := if step > 0 then 0 else len - 1
  let s0 := start.getD dflt
  let s1 := if s0 < 0 then s0 + len else s0
  if step > 0 then clamp s1 0 len else clamp s1 (-1) (len - 1)

def endBound (len : Int64) (stop : Option Int64) (step : Int64) : Int64 :=
  let dflt : Int64 := if step > 0 then len else -1
  let e0 := stop.getD dflt
  let e1 := if stop.isSome ∧ e0 < 0 then e0 + len else e0
  if step > 0 then clamp e1 0 len else clamp e1 (-1) (len - 1)

theorem sliceBounds_eq (len : Int64) (start stop : Option Int64) (step : Int64) :
    sliceBounds len start stop step = (startBound len start step, endBound len stop step) := by
  unfold sliceBounds startBound endBound; simp only; split <;> rfl

theorem startBound_toInt (len step : Int64) (hl : 0 ≤ len.toInt) (v : Option Int64) :
    (startBound len v step).toInt =
      adjIdx len.toInt step.toInt (v.map Int64.toInt) (if step.toInt > 0 then 0 else len.toInt - 1) :=
  bound_start len step hl v

theorem endBound_toInt (len step : Int64) (hl : 0 ≤ len.toInt) (v : Option Int64) :
    (endBound len v step).toInt =
      adjIdx len.toInt step.toInt (v.map Int64.toInt) (if step.toInt > 0 then len.toInt else -1) :=
  bound_end len step hl v

/-- The iterator against the unbounded reference (upward). -/
theorem collect_up (stop step : Int64) (hstep : step > 0) (f : Nat) (cur : Int64) (j : Int)
    (h : cur.toInt = j ∨ (cur.toInt ≥ stop.toInt ∧ j ≥ stop.toInt)) :
    ((PyRange.collect f { cur := cur, stop := stop, step := step }).1.map Int64.toInt
        = upIdx j stop.toInt step.toInt f) ∧
    ((stop.toInt - j).toNat ≤ f → (PyRange.collect f { cur := cur, stop := stop, step := step }).2 = true) := by
  have hstep' := (pos_iff step).1 hstep
  induction f generalizing cur j with
  | zero =>
    refine ⟨by simp [PyRange.collect, upIdx], ?_⟩
    intro hf
    simp only [PyRange.collect, PyRange.next, hstep, if_true]
    have : cur ≥ stop := by rw [ge_iff]; omega
    simp [this]
  | succ f ih =>
    unfold PyRange.collect upIdx
    simp only [PyRange.next, hstep, if_true]
    by_cases hge : cur ≥ stop
    · have hge' := (ge_iff _ _).1 hge
      simp only [hge, if_true]
      have : ¬ j < stop.toInt := by omega
      simp [this]
    · have hge' : ¬ cur.toInt ≥ stop.toInt := fun h => hge ((ge_iff _ _).2 h)
      have hj : cur.toInt = j := by omega
      subst hj
      simp only [hge, if_false]
      have hlt : cur.toInt < stop.toInt := by omega
      rw [if_pos hlt]
      have hrec := ih (satAdd cur step) (cur.toInt + step.toInt) (by
        rw [satAdd_toInt]
        have := Incan.Num.range cur; have := Incan.Num.range step; have := Incan.Num.range stop
        split
        · right; omega
        · split
          · omega
          · left; rfl)
      refine ⟨by simp [hrec.1], ?_⟩
      intro hf
      exact hrec.2 (by omega)

theorem collect_down (stop step : Int64) (hstep : ¬ step > 0) (hne : step ≠ 0) (f : Nat) (cur : Int64) (j : Int)
    (h : cur.toInt = j ∨ (cur.toInt ≤ stop.toInt ∧ j ≤ stop.toInt)) :
    ((PyRange.collect f { cur := cur, stop := stop, step := step }).1.map Int64.toInt
        = downIdx j stop.toInt step.toInt f) ∧
    ((j - stop.toInt).toNat ≤ f → (PyRange.collect f { cur := cur, stop := stop, step := step }).2 = true) := by
  have hstep' : step.toInt < 0 := by
    have h1 : ¬ step.toInt > 0 := fun h => hstep ((pos_iff step).2 h)
    have h2 : step.toInt ≠ 0 := fun h => hne ((Incan.Num.eq_zero_iff step).2 h)
    omega
  induction f generalizing cur j with
  | zero =>
    refine ⟨by simp [PyRange.collect, downIdx], ?_⟩
    intro hf
    simp only [PyRange.collect, PyRange.next, hstep, if_false]
    have : cur ≤ stop := by rw [le_iff]; omega
    simp [this]
  | succ f ih =>
    unfold PyRange.collect downIdx
    simp only [PyRange.next, hstep, if_false]
    by_cases hle : cur ≤ stop
    · have hle' := (le_iff _ _).1 hle
      simp only [hle, if_true]
      have : ¬ j > stop.toInt := by omega
      simp [this]
    · have hle' : ¬ cur.toInt ≤ stop.toInt := fun h => hle ((le_iff _ _).2 h)
      have hj : cur.toInt = j := by omega
      subst hj
      simp only [hle, if_false]
      have hgt : cur.toInt > stop.toInt := by omega
      rw [if_pos hgt]
      have hrec := ih (satAdd cur step) (cur.toInt + step.toInt) (by
        rw [satAdd_toInt]
        have := Incan.Num.range cur; have := Incan.Num.range step; have := Incan.Num.range stop
        split
        · omega
        · split
          · right; omega
          · left; rfl)
      refine ⟨by simp [hrec.1], ?_⟩
      intro hf
      exact hrec.2 (by omega)

end Incan.Seq
