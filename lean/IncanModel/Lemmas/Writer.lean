import IncanModel.Tool.Writer
/- Lemmas about the output writer model (Tool/Writer): how `noTrailing` / `endsBlank` behave under append. -/
namespace Incan.Writer

theorem endsBlank_append_nonempty (t s : List Char) (hs : s ≠ []) : endsBlank (t ++ s) = endsBlank s := by
  induction t with
  | nil => rfl
  | cons a rest ih =>
    cases rest with
    | nil =>
      cases s with
      | nil => exact absurd rfl hs
      | cons b s' => rfl
    | cons b rest' =>
      simpa [endsBlank] using ih

theorem noTrailing_append_nl (t : List Char) (c : Char) (hc : isNl c = true) :
    noTrailing (t ++ [c]) = (noTrailing t && !endsBlank t) := by
  induction t with
  | nil => rfl
  | cons a rest ih =>
    cases rest with
    | nil => simp [noTrailing, endsBlank, hc]
    | cons b rest' =>
      simp only [List.cons_append, noTrailing, endsBlank] at ih ⊢
      rw [ih]
      simp [Bool.and_assoc]

theorem noTrailing_piece (s : List Char) (hs : s.all (fun c => !isNl c) = true) : noTrailing s = true := by
  induction s with
  | nil => rfl
  | cons a rest ih =>
    cases rest with
    | nil => rfl
    | cons b rest' =>
      simp only [List.all_cons, Bool.and_eq_true, Bool.not_eq_true'] at hs
      simp only [noTrailing, hs.2.1, Bool.and_false, Bool.not_false, Bool.true_and]
      apply ih
      simp [List.all_cons, hs.2.1, hs.2.2]

theorem noTrailing_append_piece (t s : List Char) (hs : s.all (fun c => !isNl c) = true) :
    noTrailing (t ++ s) = noTrailing t := by
  induction t with
  | nil => simpa [noTrailing] using noTrailing_piece s hs
  | cons a rest ih =>
    cases rest with
    | nil =>
      cases s with
      | nil => rfl
      | cons b s' =>
        have hb : isNl b = false := by
          simp only [List.all_cons, Bool.and_eq_true, Bool.not_eq_true'] at hs; exact hs.1
        simp only [List.cons_append, List.nil_append, noTrailing, hb, Bool.and_false, Bool.not_false, Bool.true_and]
        exact noTrailing_piece _ hs
    | cons b rest' =>
      simp only [List.cons_append, noTrailing] at ih ⊢
      rw [ih]


theorem nl_not_blank (c : Char) (h : isNl c = true) : isBlankChar c = false := by
  have : c = '\n' := by simpa [isNl] using h
  subst this; decide

theorem nl_not_tab (c : Char) (h : isNl c = true) : isTab c = false := by
  have : c = '\n' := by simpa [isNl] using h
  subst this; decide

theorem endsBlank_append_single (t : List Char) (c : Char) : endsBlank (t ++ [c]) = isBlankChar c :=
  endsBlank_append_nonempty t [c] (by simp)

/-- The invariant the writer keeps on its text while the client keeps its side. -/
structure Inv (t : List Char) (pend : Bool) : Prop where
  trailing : noTrailing t = true
  tabs : t.all (fun c => !isTab c) = true
  blank : endsBlank t = true → pend = true

theorem inv_newline (t : List Char) (h : Inv t false) : Inv (t ++ ['\n']) false := by
  have hb : endsBlank t = false := by
    cases hh : endsBlank t with
    | false => rfl
    | true => exact absurd (h.blank hh) (by decide)
  refine ⟨?_, ?_, ?_⟩
  · rw [noTrailing_append_nl _ _ (by decide), h.trailing, hb]; rfl
  · rw [List.all_append, h.tabs]; decide
  · intro hh
    rw [endsBlank_append_single] at hh
    exact absurd hh (by decide)

theorem inv_blank (n : Nat) (w : W) (h : Inv w.out false) : Inv (blank n w).out false := by
  induction n generalizing w with
  | zero => exact h
  | succ k ih => exact ih _ (inv_newline w.out h)

theorem replicate_space_ok (k : Nat) :
    (List.replicate k ' ').all (fun c => !isTab c && !isNl c) = true := by
  induction k with
  | zero => rfl
  | succ k ih => simp only [List.replicate_succ, List.all_cons, ih, Bool.and_true]; decide

theorem all_split (s : List Char) (h : s.all (fun c => !isTab c && !isNl c) = true) :
    s.all (fun c => !isTab c) = true ∧ s.all (fun c => !isNl c) = true := by
  induction s with
  | nil => exact ⟨rfl, rfl⟩
  | cons a rest ih =>
    simp only [List.all_cons, Bool.and_eq_true] at h ⊢
    exact ⟨⟨h.1.1, (ih h.2).1⟩, ⟨h.1.2, (ih h.2).2⟩⟩

theorem inv_append_piece (t s : List Char) (pend : Bool) (h : Inv t pend)
    (hs : s.all (fun c => !isTab c && !isNl c) = true) :
    Inv (t ++ s) (if s.isEmpty then pend else endsBlank s) := by
  cases s with
  | nil => simpa using h
  | cons a rest =>
    obtain ⟨ht, hn⟩ := all_split _ hs
    refine ⟨?_, ?_, ?_⟩
    · rw [noTrailing_append_piece _ _ hn]; exact h.trailing
    · rw [List.all_append, h.tabs, ht]; rfl
    · intro hh
      rw [endsBlank_append_nonempty _ _ (by simp)] at hh
      simpa using hh

theorem inv_write (w : W) (s : List Char) (pend : Bool) (h : Inv w.out pend)
    (hs : s.all (fun c => !isTab c && !isNl c) = true) :
    Inv (write w s).out (if s.isEmpty then pend else endsBlank s) := by
  unfold write
  cases hse : s.isEmpty with
  | true => simpa using h
  | false =>
    simp only [Bool.false_eq_true, if_false]
    have hi : ∃ p, Inv (writeIndent w).out p := by
      unfold writeIndent
      cases w.atStart with
      | false => exact ⟨pend, h⟩
      | true => exact ⟨_, inv_append_piece w.out _ pend h (replicate_space_ok _)⟩
    obtain ⟨p, hp⟩ := hi
    have := inv_append_piece (writeIndent w).out s p hp hs
    rw [hse] at this
    simpa using this

end Incan.Writer
