/-
Pure `Int` facts relating truncated division (what Rust's `/`, `%` compute) to floored division
(what Python's `//`, `%` compute).  Helper lemmas only; property theorems live in `Props/`.
-/
namespace Incan.IntDiv

/-- The adjustment test used by every kernel. -/
def adj (r b : Int) : Prop := (r > 0 ∧ b < 0) ∨ (r < 0 ∧ b > 0)

instance (r b : Int) : Decidable (adj r b) := by unfold adj; infer_instance

theorem tmod_bounds_pos (a : Int) {b : Int} (h : 0 < b) : -b < a.tmod b ∧ a.tmod b < b :=
  ⟨Int.lt_tmod_of_pos a h, Int.tmod_lt_of_pos a h⟩

theorem tmod_bounds_neg (a : Int) {b : Int} (h : b < 0) : b < a.tmod b ∧ a.tmod b < -b := by
  have h1 := tmod_bounds_pos a (b := -b) (by omega)
  rw [Int.tmod_neg] at h1
  omega

theorem fdiv_fmod_of_tdiv_tmod (a b : Int) (hb : b ≠ 0) :
    a.fdiv b = (if adj (a.tmod b) b then a.tdiv b - 1 else a.tdiv b) ∧
    a.fmod b = (if adj (a.tmod b) b then a.tmod b + b else a.tmod b) := by
  have hid := Int.tmod_add_mul_tdiv a b
  by_cases hpos : 0 < b
  · have hbd := tmod_bounds_pos a hpos
    by_cases hadj : adj (a.tmod b) b
    · simp only [hadj, if_true]
      rw [Int.fdiv_fmod_unique hpos]
      unfold adj at hadj
      refine ⟨?_, ?_, ?_⟩
      · rw [Int.mul_sub]; omega
      · omega
      · omega
    · simp only [hadj, if_false]
      rw [Int.fdiv_fmod_unique hpos]
      unfold adj at hadj
      refine ⟨hid, ?_, ?_⟩ <;> omega
  · have hneg : b < 0 := by omega
    have hbd := tmod_bounds_neg a hneg
    by_cases hadj : adj (a.tmod b) b
    · simp only [hadj, if_true]
      rw [Int.fdiv_fmod_unique' hneg]
      unfold adj at hadj
      refine ⟨?_, ?_, ?_⟩
      · rw [Int.mul_sub]; omega
      · omega
      · omega
    · simp only [hadj, if_false]
      rw [Int.fdiv_fmod_unique' hneg]
      unfold adj at hadj
      refine ⟨hid, ?_, ?_⟩ <;> omega

/-- `|a tdiv b| ≤ |a|`, in the two-sided form `omega` likes. -/
theorem tdiv_bounds (a b : Int) : -(a.natAbs : Int) ≤ a.tdiv b ∧ a.tdiv b ≤ (a.natAbs : Int) := by
  have := Int.natAbs_tdiv_le_natAbs a b
  omega

/-- When the remainder is non-zero the divisor has magnitude ≥ 2, so the quotient is at most half. -/
theorem two_mul_tdiv_bounds (a b : Int) (hr : a.tmod b ≠ 0) :
    -(a.natAbs : Int) ≤ 2 * a.tdiv b ∧ 2 * a.tdiv b ≤ (a.natAbs : Int) := by
  have hb1 : b ≠ 1 := by intro h; subst h; simp at hr
  have hbm1 : b ≠ -1 := by intro h; subst h; simp at hr
  by_cases hb0 : b = 0
  · subst hb0; simp
  have hnat : (a.tdiv b).natAbs = a.natAbs / b.natAbs := by
    rw [Int.natAbs_tdiv]; rfl
  have hb2 : 2 ≤ b.natAbs := by omega
  have : a.natAbs / b.natAbs ≤ a.natAbs / 2 := Nat.div_le_div_left hb2 (by omega)
  omega

end Incan.IntDiv

namespace Incan.IntDiv

theorem tdiv_in_range (a b : Int) (ha : -2^63 ≤ a ∧ a < 2^63)
    (hne : ¬(a = -2^63 ∧ b = -1)) : -2^63 ≤ a.tdiv b ∧ a.tdiv b < 2^63 := by
  have hb := tdiv_bounds a b
  refine ⟨by omega, ?_⟩
  by_cases ha0 : 0 ≤ a
  · omega
  · by_cases hb0 : 0 ≤ b
    · have h1 : 0 ≤ (-a).tdiv b := Int.tdiv_nonneg (by omega) hb0
      rw [Int.neg_tdiv] at h1
      omega
    · by_cases hb1 : b = -1
      · subst hb1
        have : a ≠ -2^63 := fun h => hne ⟨h, rfl⟩
        omega
      · have hnat : (a.tdiv b).natAbs = a.natAbs / b.natAbs := by
          rw [Int.natAbs_tdiv]; rfl
        have hb2 : 2 ≤ b.natAbs := by omega
        have : a.natAbs / b.natAbs ≤ a.natAbs / 2 := Nat.div_le_div_left hb2 (by omega)
        omega

end Incan.IntDiv
