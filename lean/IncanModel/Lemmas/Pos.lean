import IncanModel.Kernel.Pos
namespace Incan.Pos

theorem utf8Size_pos (c : Char) : 0 < c.utf8Size := Char.utf8Size_pos c

theorem utf8Len_append (a b : List Char) : utf8Len (a ++ b) = utf8Len a + utf8Len b := by
  induction a with
  | nil => simp [utf8Len]
  | cons c cs ih => simp [utf8Len, ih]; omega

/-- Position reached after reading exactly the characters of `pre` from `p`. -/
def posFrom (p : Position) (pre : List Char) : Position := pre.foldl step p
def posOf (pre : List Char) : Position := posFrom (0, 0) pre

theorem step_lt (p : Position) (c : Char) : Position.lt p (step p c) := by
  unfold step Position.lt; split <;> simp

theorem Position.le_refl (p : Position) : Position.le p p := by unfold Position.le; simp
theorem Position.le_of_lt {a b : Position} (h : Position.lt a b) : Position.le a b := by
  unfold Position.lt at h; unfold Position.le; omega
theorem Position.le_trans {a b c : Position} (h1 : Position.le a b) (h2 : Position.le b c) : Position.le a c := by
  unfold Position.le at *; omega
theorem Position.lt_of_lt_of_le {a b c : Position} (h1 : Position.lt a b) (h2 : Position.le b c) : Position.lt a c := by
  unfold Position.le Position.lt at *; omega
theorem Position.ne_of_lt {a b : Position} (h : Position.lt a b) : a ≠ b := by
  intro e; subst e; unfold Position.lt at h; omega

theorem posFrom_le (p : Position) (pre : List Char) : Position.le p (posFrom p pre) := by
  induction pre generalizing p with
  | nil => exact Position.le_refl p
  | cons c cs ih =>
    exact Position.le_trans (Position.le_of_lt (step_lt p c)) (ih (step p c))

theorem posFrom_lt (p : Position) (c : Char) (cs : List Char) : Position.lt p (posFrom p (c :: cs)) :=
  Position.lt_of_lt_of_le (step_lt p c) (posFrom_le _ cs)

theorem posFrom_append (p : Position) (a b : List Char) : posFrom p (a ++ b) = posFrom (posFrom p a) b := by
  simp [posFrom, List.foldl_append]

/-- The characters whose first byte lies strictly before `off` (what the loop gets to read). -/
def readBefore : List Char → Nat → Nat → List Char
  | [], _, _ => []
  | c :: cs, i, off => if i ≥ off then [] else c :: readBefore cs (i + c.utf8Size) off

theorem o2pGo_eq (doc : List Char) (i off : Nat) (p : Position) :
    o2pGo doc i off p = posFrom p (readBefore doc i off) := by
  induction doc generalizing i p with
  | nil => simp [o2pGo, readBefore, posFrom]
  | cons c cs ih =>
    unfold o2pGo readBefore
    split
    · simp [posFrom]
    · rw [ih]; simp [posFrom]

/-- At a character boundary the loop has read exactly the prefix. -/
theorem readBefore_boundary (pre post : List Char) (i : Nat) :
    readBefore (pre ++ post) i (i + utf8Len pre) = pre := by
  induction pre generalizing i with
  | nil =>
    cases post with
    | nil => simp [readBefore]
    | cons c cs => simp [readBefore, utf8Len]
  | cons c cs ih =>
    have := utf8Size_pos c
    simp only [List.cons_append, readBefore, utf8Len]
    rw [if_neg (by omega)]
    have e : i + (c.utf8Size + utf8Len cs) = (i + c.utf8Size) + utf8Len cs := by omega
    rw [e, ih]

theorem readBefore_prefix_doc (doc : List Char) (i off : Nat) : readBefore doc i off <+: doc := by
  induction doc generalizing i with
  | nil => simp [readBefore]
  | cons c cs ih =>
    unfold readBefore
    split
    · exact List.nil_prefix
    · exact List.cons_prefix_cons.2 ⟨rfl, ih _⟩

theorem readBefore_mono (doc : List Char) (i o1 o2 : Nat) (h : o1 ≤ o2) :
    readBefore doc i o1 <+: readBefore doc i o2 := by
  induction doc generalizing i with
  | nil => simp [readBefore]
  | cons c cs ih =>
    unfold readBefore
    by_cases h1 : i ≥ o1
    · rw [if_pos h1]; exact List.nil_prefix
    · rw [if_neg h1, if_neg (by omega)]
      exact List.cons_prefix_cons.2 ⟨rfl, ih _⟩

theorem posFrom_prefix_le (p : Position) {a b : List Char} (h : a <+: b) :
    Position.le (posFrom p a) (posFrom p b) := by
  obtain ⟨t, rfl⟩ := h
  rw [posFrom_append]; exact posFrom_le _ t

theorem offsetToPosition_boundary (pre post : List Char) :
    offsetToPosition (pre ++ post) (utf8Len pre) = posOf pre := by
  unfold offsetToPosition
  rw [o2pGo_eq, utf8Len_append, Nat.min_eq_left (by omega)]
  have := readBefore_boundary pre post 0
  simp only [Nat.zero_add] at this
  rw [this]; rfl

theorem offsetToPosition_mono (doc : List Char) (o1 o2 : Nat) (h : o1 ≤ o2) :
    Position.le (offsetToPosition doc o1) (offsetToPosition doc o2) := by
  unfold offsetToPosition
  rw [o2pGo_eq, o2pGo_eq]
  apply posFrom_prefix_le
  apply readBefore_mono
  omega

theorem offsetToPosition_le_end (doc : List Char) (o : Nat) :
    Position.le (offsetToPosition doc o) (posOf doc) := by
  unfold offsetToPosition
  rw [o2pGo_eq]
  exact posFrom_prefix_le _ (readBefore_prefix_doc _ _ _)

/-- Inverse direction: reading `pre` and then asking for the position reached gives back its length. -/
theorem p2oGo_boundary (pre post : List Char) (i line col offset : Nat)
    (hoff : pre = [] → post = [] → offset = i) :
    p2oGo (pre ++ post) i line col offset (posFrom (line, col) pre) = some (i + utf8Len pre) := by
  induction pre generalizing i line col offset with
  | nil =>
    cases post with
    | nil => simp [p2oGo, posFrom, utf8Len, hoff rfl rfl]
    | cons c cs => simp [p2oGo, posFrom, utf8Len]
  | cons c cs ih =>
    have hlt := posFrom_lt (line, col) c cs
    have hne : ¬ (line = (posFrom (line, col) (c :: cs)).1 ∧ col = (posFrom (line, col) (c :: cs)).2) := by
      unfold Position.lt at hlt; simp only at hlt; omega
    simp only [List.cons_append, p2oGo]
    rw [if_neg hne]
    have hstep : posFrom (line, col) (c :: cs) = posFrom (step (line, col) c) cs := by simp [posFrom]
    by_cases hc : c = '\n'
    · subst hc
      rw [if_pos rfl]
      have hle := posFrom_le (step (line, col) '\n') cs
      rw [← hstep] at hle
      have hl : ¬ line = (posFrom (line, col) ('\n' :: cs)).1 := by
        unfold Position.le step at hle; simp only [if_true] at hle; omega
      rw [if_neg hl, hstep]
      have : step (line, col) '\n' = (line + 1, 0) := by simp [step]
      rw [this, ih _ _ _ _ (fun _ _ => rfl)]
      simp [utf8Len]; omega
    · rw [if_neg hc, hstep]
      have : step (line, col) c = (line, col + 1) := by simp [step, hc]
      rw [this, ih _ _ _ _ (fun _ _ => rfl)]
      simp [utf8Len]; omega

/-- The text after the last newline of `pre` (all of `pre` if it has none), computed left to right. -/
def lastLineFrom (acc : List Char) (pre : List Char) : List Char :=
  pre.foldl (fun acc c => if c = '\n' then [] else acc ++ [c]) acc
def lastLine (pre : List Char) : List Char := lastLineFrom [] pre

theorem posFrom_count (p : Position) (pre : List Char) :
    (posFrom p pre).1 = p.1 + pre.count '\n' := by
  induction pre generalizing p with
  | nil => simp [posFrom]
  | cons c cs ih =>
    have : posFrom p (c :: cs) = posFrom (step p c) cs := by simp [posFrom]
    rw [this, ih]
    by_cases hc : c = '\n'
    · subst hc; simp [step]; omega
    · simp [step, hc]

theorem lastLineFrom_spec (acc pre : List Char) (hacc : '\n' ∉ acc) :
    '\n' ∉ lastLineFrom acc pre ∧
    ((∃ before, pre = before ++ '\n' :: lastLineFrom acc pre) ∨ lastLineFrom acc pre = acc ++ pre) := by
  induction pre generalizing acc with
  | nil => simp [lastLineFrom, hacc]
  | cons c cs ih =>
    have hunf : lastLineFrom acc (c :: cs) = lastLineFrom (if c = '\n' then [] else acc ++ [c]) cs := by
      simp [lastLineFrom]
    rw [hunf]
    by_cases hc : c = '\n'
    · subst hc
      simp only [if_true]
      obtain ⟨h1, h2⟩ := ih [] (by simp)
      refine ⟨h1, Or.inl ?_⟩
      rcases h2 with ⟨b, hb⟩ | h
      · exact ⟨'\n' :: b, by rw [List.cons_append, ← hb]⟩
      · exact ⟨[], by simp [h]⟩
    · simp only [hc, if_false]
      have hacc' : '\n' ∉ acc ++ [c] := by
        simp [hacc]; exact fun h => hc h.symm
      obtain ⟨h1, h2⟩ := ih (acc ++ [c]) hacc'
      refine ⟨h1, ?_⟩
      rcases h2 with ⟨b, hb⟩ | h
      · exact Or.inl ⟨c :: b, by rw [List.cons_append, ← hb]⟩
      · exact Or.inr (by simp [h])

/-- `lastLine pre` really is "everything after the last newline". -/
theorem lastLine_spec (pre : List Char) :
    '\n' ∉ lastLine pre ∧ ((∃ before, pre = before ++ '\n' :: lastLine pre) ∨ lastLine pre = pre) := by
  have := lastLineFrom_spec [] pre (by simp)
  simpa [lastLine] using this

theorem posFrom_col (l : Nat) (acc pre : List Char) :
    (posFrom (l, acc.length) pre).2 = (lastLineFrom acc pre).length := by
  induction pre generalizing l acc with
  | nil => simp [posFrom, lastLineFrom]
  | cons c cs ih =>
    have h1 : posFrom (l, acc.length) (c :: cs) = posFrom (step (l, acc.length) c) cs := by simp [posFrom]
    have h2 : lastLineFrom acc (c :: cs) = lastLineFrom (if c = '\n' then [] else acc ++ [c]) cs := by
      simp [lastLineFrom]
    rw [h1, h2]
    by_cases hc : c = '\n'
    · subst hc
      simp only [step, if_true]
      exact ih (l + 1) []
    · simp only [step, hc, if_false]
      have := ih l (acc ++ [c])
      simpa using this

theorem posOf_col (pre : List Char) : (posOf pre).2 = (lastLine pre).length :=
  posFrom_col 0 [] pre

end Incan.Pos

namespace Incan.Pos

theorem newline_size : ('\n' : Char).utf8Size = 1 := by decide

theorem gliGo_boundary (pre post acc : List Char) (i ln ls : Nat) (hls : ls + utf8Len acc = i) :
    ∃ ls', gliGo (pre ++ post) i (i + utf8Len pre) ln ls (acc ++ pre ++ post)
        = (ln + pre.count '\n', ls', lastLineFrom acc pre ++ post) ∧
      ls' + utf8Len (lastLineFrom acc pre) = i + utf8Len pre := by
  induction pre generalizing i ln ls acc with
  | nil =>
    refine ⟨ls, ?_, by simp [lastLineFrom, utf8Len, hls]⟩
    cases post with
    | nil => simp [gliGo, lastLineFrom]
    | cons c cs => simp [gliGo, lastLineFrom, utf8Len]
  | cons c cs ih =>
    have hpos := utf8Size_pos c
    have hunf : lastLineFrom acc (c :: cs) = lastLineFrom (if c = '\n' then [] else acc ++ [c]) cs := by
      simp [lastLineFrom]
    simp only [List.cons_append, gliGo, utf8Len]
    rw [if_neg (by omega)]
    have e : i + (c.utf8Size + utf8Len cs) = (i + c.utf8Size) + utf8Len cs := by omega
    by_cases hc : c = '\n'
    · subst hc
      rw [if_pos rfl, e, hunf, if_pos rfl]
      have := ih [] (i + ('\n' : Char).utf8Size) (ln + 1) (i + 1) (by simp [utf8Len, newline_size])
      obtain ⟨ls', h1, h2⟩ := this
      refine ⟨ls', ?_, h2⟩
      simp only [List.nil_append] at h1
      rw [h1]; simp [List.count_cons]; omega
    · rw [if_neg hc, e, hunf, if_neg hc]
      have := ih (acc ++ [c]) (i + c.utf8Size) ln ls (by rw [utf8Len_append]; simp [utf8Len]; omega)
      obtain ⟨ls', h1, h2⟩ := this
      refine ⟨ls', ?_, h2⟩
      have e2 : acc ++ c :: cs ++ post = acc ++ [c] ++ cs ++ post := by simp
      rw [e2, h1]
      simp [hc]

theorem gliGo_line (doc : List Char) (i off ln ls : Nat) (rest : List Char) :
    (gliGo doc i off ln ls rest).1 = ln + (readBefore doc i off).count '\n' := by
  induction doc generalizing i ln ls rest with
  | nil => simp [gliGo, readBefore]
  | cons c cs ih =>
    unfold gliGo readBefore
    by_cases h : i ≥ off
    · simp [h]
    · rw [if_neg h, if_neg h]
      by_cases hc : c = '\n'
      · subst hc; rw [if_pos rfl, ih]; simp [List.count_cons]; omega
      · rw [if_neg hc, ih]; simp [hc]

theorem takeWhile_append_of_all (a b : List Char) (p : Char → Bool) (h : ∀ x ∈ a, p x = true) :
    (a ++ b).takeWhile p = a ++ b.takeWhile p := by
  induction a with
  | nil => simp
  | cons x xs ih =>
    have hx : p x = true := h x (by simp)
    simp [List.takeWhile, hx]
    exact ih (fun y hy => h y (by simp [hy]))

end Incan.Pos
