import IncanModel.Tool.Lsp
namespace Incan.Lsp

def ticketOf (i : Nat) : Kind → Option Nat
  | .update _ _ => some i
  | .close => none

/-- `latest[u]` after the first `k` notifications have been received. -/
def lastTicket (h : List Note) (u : Nat) : Nat → Option Nat
  | 0 => none
  | k + 1 =>
    match h[k]? with
    | some n => if n.uri = u then ticketOf k n.kind else lastTicket h u k
    | none => lastTicket h u k

/-- `tf` is the last notification for `u` among the first `k`. -/
def Final (h : List Note) (u tf k : Nat) : Prop :=
  tf < k ∧ (∃ n, h[tf]? = some n ∧ n.uri = u) ∧ ∀ j n, tf < j → j < k → h[j]? = some n → n.uri ≠ u

theorem Final.restrict {h : List Note} {u tf k k' : Nat} (hf : Final h u tf k) (h1 : tf < k') (h2 : k' ≤ k) :
    Final h u tf k' :=
  ⟨h1, hf.2.1, fun j n hj hk hn => hf.2.2 j n hj (by omega) hn⟩

theorem final_values {h : List Note} {u tf : Nat} (k : Nat) (hf : Final h u tf k) :
    ∃ n, h[tf]? = some n ∧ n.uri = u ∧ lastTicket h u k = ticketOf tf n.kind ∧
      expectedAt h u k = n.kind.payload := by
  induction k with
  | zero => exact absurd hf.1 (by omega)
  | succ k ih =>
    obtain ⟨n, hn, hu⟩ := hf.2.1
    by_cases htk : tf = k
    · subst htk
      exact ⟨n, hn, hu, by simp [lastTicket, hn, hu], by simp [expectedAt, hn, hu]⟩
    · have hlt : tf < k := by have := hf.1; omega
      obtain ⟨n', hn', hu', h1, h2⟩ := ih (hf.restrict hlt (by omega))
      refine ⟨n', hn', hu', ?_, ?_⟩
      · unfold lastTicket
        cases hk : h[k]? with
        | none => simpa using h1
        | some m =>
          have := hf.2.2 k m hlt (by omega) hk
          simp [this, h1]
      · unfold expectedAt
        cases hk : h[k]? with
        | none => simpa using h2
        | some m =>
          have := hf.2.2 k m hlt (by omega) hk
          simp [this, h2]

theorem final_exists (h : List Note) (u : Nat) (k : Nat) :
    (∀ j n, j < k → h[j]? = some n → n.uri ≠ u) ∨ ∃ tf, Final h u tf k := by
  induction k with
  | zero => left; intro j n hj; omega
  | succ k ih =>
    cases hk : h[k]? with
    | none =>
      rcases ih with ih | ⟨tf, hf⟩
      · left; intro j n hj hn
        by_cases hjk : j = k
        · subst hjk; rw [hk] at hn; cases hn
        · exact ih j n (by omega) hn
      · right
        refine ⟨tf, by have := hf.1; omega, hf.2.1, fun j n h1 h2 hn => ?_⟩
        by_cases hjk : j = k
        · subst hjk; rw [hk] at hn; cases hn
        · exact hf.2.2 j n h1 (by omega) hn
    | some m =>
      by_cases hm : m.uri = u
      · right; exact ⟨k, by omega, ⟨m, hk, hm⟩, fun j n h1 h2 _ => by omega⟩
      · rcases ih with ih | ⟨tf, hf⟩
        · left; intro j n hj hn
          by_cases hjk : j = k
          · subst hjk; rw [hk] at hn; cases hn; exact hm
          · exact ih j n (by omega) hn
        · right
          refine ⟨tf, by have := hf.1; omega, hf.2.1, fun j n h1 h2 hn => ?_⟩
          by_cases hjk : j = k
          · subst hjk; rw [hk] at hn; cases hn; exact hm
          · exact hf.2.2 j n h1 (by omega) hn

theorem expectedAt_none {h : List Note} {u : Nat} (k : Nat)
    (hno : ∀ j n, j < k → h[j]? = some n → n.uri ≠ u) : expectedAt h u k = none := by
  induction k with
  | zero => rfl
  | succ k ih =>
    unfold expectedAt
    cases hk : h[k]? with
    | none => simpa using ih (fun j n hj hn => hno j n (by omega) hn)
    | some m =>
      have := hno k m (by omega) hk
      simp [this]
      exact ih (fun j n hj hn => hno j n (by omega) hn)

structure Inv (h : List Note) (next : Nat) (pend : List Nat) (s : St) : Prop where
  latest_ok : ∀ u, s.latest u = lastTicket h u next
  pend_lt : ∀ i ∈ pend, i < next
  pend_nodup : pend.Nodup
  docs_final : ∀ u tf, Final h u tf h.length → tf < next → tf ∉ pend →
    ∃ n, h[tf]? = some n ∧ s.docs u = n.kind.payload
  docs_none : ∀ u, (∀ (j : Nat) (n : Note), h[j]? = some n → n.uri ≠ u) → s.docs u = none
  next_le : next ≤ h.length

theorem inv_init (h : List Note) : Inv h 0 [] St.init :=
  ⟨fun _ => rfl, fun i hi => by simp at hi, List.nodup_nil, fun u tf _ ht _ => by omega, fun _ _ => rfl,
   Nat.zero_le _⟩

theorem inv_recv {h : List Note} {next : Nat} {pend : List Nat} {s : St} (hi : Inv h next pend s)
    (hlt : next < h.length) : Inv h (next + 1) (next :: pend) (execNew h s (.recv next)) := by
  have hget : h[next]? = some h[next] := List.getElem?_eq_getElem hlt
  refine ⟨?_, ?_, ?_, ?_, ?_, by omega⟩
  · intro u
    simp only [execNew, hget, lastTicket]
    cases hk : (h[next]).kind with
    | update p b =>
      by_cases hu : (h[next]).uri = u
      · simp [hu, upd, ticketOf]
      · have : ¬ u = (h[next]).uri := fun e => hu e.symm
        simp [hu, upd, this, hi.latest_ok u]
    | close =>
      by_cases hu : (h[next]).uri = u
      · simp [hu, upd, ticketOf]
      · have : ¬ u = (h[next]).uri := fun e => hu e.symm
        simp [hu, upd, this, hi.latest_ok u]
  · intro i him
    rcases List.mem_cons.1 him with rfl | him
    · omega
    · have := hi.pend_lt i him; omega
  · exact List.nodup_cons.2 ⟨fun hm => by have := hi.pend_lt next hm; omega, hi.pend_nodup⟩
  · intro u tf hf ht hnot
    have hne : tf ≠ next := fun e => hnot (by simp [e])
    have hnp : tf ∉ pend := fun hm => hnot (List.mem_cons_of_mem _ hm)
    obtain ⟨n, hn, hd⟩ := hi.docs_final u tf hf (by omega) hnp
    refine ⟨n, hn, ?_⟩
    simp only [execNew, hget]
    cases (h[next]).kind <;> simpa using hd
  · intro u hno
    simp only [execNew, hget]
    cases (h[next]).kind <;> simpa using hi.docs_none u hno

theorem inv_store {h : List Note} {next : Nat} {pend : List Nat} {s : St} (hi : Inv h next pend s)
    {i : Nat} (him : i ∈ pend) : Inv h next (pend.erase i) (execNew h s (.store i)) := by
  have hilt : i < next := hi.pend_lt i him
  have hlen : i < h.length := by have := hi.next_le; omega
  have hget : h[i]? = some h[i] := List.getElem?_eq_getElem hlen
  refine ⟨?_, ?_, hi.pend_nodup.erase i, ?_, ?_, hi.next_le⟩
  · intro u
    simp only [execNew, hget]
    cases (h[i]).kind with
    | update p b => by_cases hg : s.latest (h[i]).uri = some i <;> simp [hg, hi.latest_ok u]
    | close => by_cases hg : s.latest (h[i]).uri = none <;> simp [hg, hi.latest_ok u]
  · intro j hj
    exact hi.pend_lt j (List.mem_of_mem_erase hj)
  · intro u tf hf ht hnot
    have hfn : Final h u tf next := hf.restrict ht hi.next_le
    obtain ⟨ntf, hntf, hutf, hlast, _⟩ := final_values next hfn
    have hlat : s.latest u = ticketOf tf ntf.kind := by rw [hi.latest_ok u, hlast]
    by_cases hti : tf = i
    · -- the final handler itself stores: its guard holds
      subst hti
      have hnn : ntf = h[tf] := by rw [hget] at hntf; exact (Option.some.inj hntf).symm
      refine ⟨ntf, hntf, ?_⟩
      simp only [execNew, hget]
      rw [← hnn]
      cases hk : ntf.kind with
      | update p b =>
        rw [hk] at hlat
        simp [hutf, hlat, ticketOf, upd, Kind.payload]
      | close =>
        rw [hk] at hlat
        simp [hutf, hlat, ticketOf, upd, Kind.payload]
    · -- another handler stores: it cannot disturb the final value
      have hnp : tf ∉ pend := fun hm => hnot ((List.mem_erase_of_ne hti).2 hm)
      obtain ⟨n, hn, hd⟩ := hi.docs_final u tf hf ht hnp
      have hnn : n = ntf := by rw [hntf] at hn; exact (Option.some.inj hn).symm
      refine ⟨n, hn, ?_⟩
      simp only [execNew, hget]
      by_cases hu : (h[i]).uri = u
      · cases hk : (h[i]).kind with
        | update p b =>
          have : ¬ s.latest (h[i]).uri = some i := by
            rw [hu, hlat]
            cases ntf.kind <;> simp [ticketOf]
            exact hti
          simp [this, hd]
        | close =>
          by_cases hg : s.latest (h[i]).uri = none
          · rw [hu, hlat] at hg
            have hclose : ntf.kind = .close := by
              cases hk2 : ntf.kind with
              | update p b => rw [hk2] at hg; simp [ticketOf] at hg
              | close => rfl
            have hg' : s.latest u = none := by rw [hlat, hclose]; rfl
            simp [hg', upd, hu, hnn, hclose, Kind.payload]
          · simp [hg, hd]
      · have hne : ¬ u = (h[i]).uri := fun e => hu e.symm
        cases (h[i]).kind with
        | update p b => by_cases hg : s.latest (h[i]).uri = some i <;> simp [hg, upd, hne, hd]
        | close => by_cases hg : s.latest (h[i]).uri = none <;> simp [hg, upd, hne, hd]
  · intro u hno
    have hne : ¬ u = (h[i]).uri := fun e => hno i (h[i]) hget e.symm
    simp only [execNew, hget]
    cases (h[i]).kind with
    | update p b => by_cases hg : s.latest (h[i]).uri = some i <;> simp [hg, upd, hne, hi.docs_none u hno]
    | close => by_cases hg : s.latest (h[i]).uri = none <;> simp [hg, upd, hne, hi.docs_none u hno]

theorem converge_go (h : List Note) (sched : List Step) (next : Nat) (pend : List Nat) (s : St)
    (hi : Inv h next pend s) (hv : validGo h.length sched next pend = true) (u : Nat) :
    (sched.foldl (execNew h) s).docs u = expected h u := by
  induction sched generalizing next pend s with
  | nil =>
    simp only [validGo, Bool.and_eq_true, beq_iff_eq, List.isEmpty_iff] at hv
    obtain ⟨hn, hp⟩ := hv
    subst hp
    simp only [List.foldl_nil]
    unfold expected
    rcases final_exists h u h.length with hno | ⟨tf, hf⟩
    · rw [expectedAt_none _ hno]
      apply hi.docs_none u
      intro j n hn'
      have hj : j < h.length := by
        by_cases hj : j < h.length
        · exact hj
        · rw [List.getElem?_eq_none (by omega)] at hn'; cases hn'
      exact hno j n hj hn'
    · obtain ⟨n, hn', hd⟩ := hi.docs_final u tf hf (by rw [hn]; exact hf.1) (by simp)
      obtain ⟨n2, hn2, _, _, hexp⟩ := final_values h.length hf
      rw [hn'] at hn2
      cases hn2
      rw [hd, hexp]
  | cons st rest ih =>
    cases st with
    | recv i =>
      simp only [validGo, Bool.and_eq_true, beq_iff_eq, decide_eq_true_eq] at hv
      obtain ⟨⟨rfl, hlt⟩, hv'⟩ := hv
      simp only [List.foldl_cons]
      exact ih (i + 1) (i :: pend) _ (inv_recv hi hlt) hv'
    | store i =>
      simp only [validGo, Bool.and_eq_true] at hv
      obtain ⟨hc, hv'⟩ := hv
      have him : i ∈ pend := by simpa using hc
      simp only [List.foldl_cons]
      exact ih next (pend.erase i) _ (inv_store hi him) hv'

end Incan.Lsp
