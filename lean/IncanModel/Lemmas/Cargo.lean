import IncanModel.Tool.Cargo
namespace Incan.Cargo

theorem lexLe_total (a b : Name) : (lexLe a b || lexLe b a) = true := by
  induction a generalizing b with
  | nil => simp [lexLe]
  | cons x xs ih =>
    cases b with
    | nil => simp [lexLe]
    | cons y ys =>
      simp only [lexLe]
      by_cases h1 : x < y
      · simp [h1]
      · by_cases h2 : x = y
        · subst h2; simpa using ih ys
        · have : y < x := by omega
          simp [h1, h2, this]

theorem lexLe_trans (a b c : Name) (h1 : lexLe a b = true) (h2 : lexLe b c = true) : lexLe a c = true := by
  induction a generalizing b c with
  | nil => simp [lexLe]
  | cons x xs ih =>
    cases b with
    | nil => simp [lexLe] at h1
    | cons y ys =>
      cases c with
      | nil => simp [lexLe] at h2
      | cons z zs =>
        simp only [lexLe] at h1 h2 ⊢
        by_cases hxy : x < y
        · by_cases hyz : y < z
          · have : x < z := by omega
            simp [this]
          · by_cases hyz2 : y = z
            · subst hyz2; simp [hxy]
            · simp [hyz, hyz2] at h2
        · by_cases hxy2 : x = y
          · subst hxy2
            simp only [Nat.lt_irrefl, if_false, if_true] at h1
            by_cases hyz : x < z
            · simp [hyz]
            · by_cases hyz2 : x = z
              · subst hyz2
                simp only [Nat.lt_irrefl, if_false, if_true] at h2 ⊢
                exact ih ys zs h1 h2
              · simp [hyz, hyz2] at h2
          · simp [hxy, hxy2] at h1

theorem lexLe_antisymm (a b : Name) (h1 : lexLe a b = true) (h2 : lexLe b a = true) : a = b := by
  induction a generalizing b with
  | nil =>
    cases b with
    | nil => rfl
    | cons y ys => simp [lexLe] at h2
  | cons x xs ih =>
    cases b with
    | nil => simp [lexLe] at h1
    | cons y ys =>
      simp only [lexLe] at h1 h2
      by_cases hxy : x < y
      · have h3 : ¬ y < x := by omega
        have h4 : ¬ y = x := by omega
        simp [h3, h4] at h2
      · by_cases hxy2 : x = y
        · subst hxy2
          simp only [Nat.lt_irrefl, if_false, if_true] at h1 h2
          rw [ih ys h1 h2]
        · simp [hxy, hxy2] at h1

theorem eq_of_nodup_map {α β : Type} (f : α → β) (l : List α) (hn : (l.map f).Nodup) {a b : α}
    (ha : a ∈ l) (hb : b ∈ l) (h : f a = f b) : a = b := by
  induction l with
  | nil => cases ha
  | cons x xs ih =>
    simp only [List.map_cons, List.nodup_cons] at hn
    rcases List.mem_cons.1 ha with rfl | ha'
    · rcases List.mem_cons.1 hb with rfl | hb'
      · rfl
      · exact absurd (List.mem_map.2 ⟨b, hb', h.symm⟩) hn.1
    · rcases List.mem_cons.1 hb with rfl | hb'
      · exact absurd (List.mem_map.2 ⟨a, ha', h⟩) hn.1
      · exact ih hn.2 ha' hb'

/-- Sorting any two arrangements of the same table (distinct names) gives the same list. -/
theorem sort_perm_eq (t1 t2 : List (Name × Spec)) (hp : t1.Perm t2) (hn : (t1.map (·.1)).Nodup) :
    t1.mergeSort (fun a b => lexLe a.1 b.1) = t2.mergeSort (fun a b => lexLe a.1 b.1) := by
  have hs1 := List.pairwise_mergeSort (le := fun (a b : Name × Spec) => lexLe a.1 b.1)
    (fun a b c => lexLe_trans a.1 b.1 c.1) (fun a b => lexLe_total a.1 b.1) t1
  have hs2 := List.pairwise_mergeSort (le := fun (a b : Name × Spec) => lexLe a.1 b.1)
    (fun a b c => lexLe_trans a.1 b.1 c.1) (fun a b => lexLe_total a.1 b.1) t2
  have hperm : (t1.mergeSort (fun a b => lexLe a.1 b.1)).Perm (t2.mergeSort (fun a b => lexLe a.1 b.1)) :=
    (List.mergeSort_perm t1 _).trans (hp.trans (List.mergeSort_perm t2 _).symm)
  apply List.Perm.eq_of_pairwise (le := fun (a b : Name × Spec) => lexLe a.1 b.1 = true) _ hs1 hs2 hperm
  intro a b ha hb hab hba
  have hname : a.1 = b.1 := lexLe_antisymm a.1 b.1 hab hba
  -- both are entries of t1, whose names are distinct
  have ha1 : a ∈ t1 := (List.mergeSort_perm t1 _).mem_iff.1 ha
  have hb1 : b ∈ t1 := hp.mem_iff.2 ((List.mergeSort_perm t2 _).mem_iff.1 hb)
  exact eq_of_nodup_map (·.1) t1 hn ha1 hb1 hname

end Incan.Cargo
