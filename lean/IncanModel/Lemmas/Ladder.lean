import IncanModel.Syntax.Ladder
/-
Helper lemmas for the ladder round-trip (C08).  `Conv p r`: the fuel-indexed computation `p` returns `r`
for every sufficiently large fuel.
-/
namespace Incan.Ladder

def Conv {α : Type} (p : Nat → Option α) (r : α) : Prop := ∃ f0, ∀ f, f0 ≤ f → p f = some r

abbrev Res := Expr × List Tok

/-! ### One-step unfoldings, per level shape -/

theorem step_left {k : Nat} (hk : kind k = .leftAssoc) {ts : List Tok} {l : Expr} {r : List Tok} {R : Res}
    (h1 : Conv (fun f => parse f (k + 1) ts) (l, r)) (h2 : Conv (fun f => loop f k l r) R) :
    Conv (fun f => parse f k ts) R := by
  obtain ⟨f1, h1⟩ := h1; obtain ⟨f2, h2⟩ := h2
  refine ⟨max f1 f2 + 1, fun f hf => ?_⟩
  obtain ⟨f', rfl⟩ : ∃ f', f = f' + 1 := ⟨f - 1, by omega⟩
  simp only [parse, hk, h1 f' (by omega), h2 f' (by omega)]

theorem step_loop_some {k : Nat} {ts r r' : List Tok} {op : BOp} {left rt : Expr} {R : Res}
    (hm : matchBin k ts = some (op, r))
    (h1 : Conv (fun f => parse f (k + 1) r) (rt, r'))
    (h2 : Conv (fun f => loop f k (.bin op left rt) r') R) :
    Conv (fun f => loop f k left ts) R := by
  obtain ⟨f1, h1⟩ := h1; obtain ⟨f2, h2⟩ := h2
  refine ⟨max f1 f2 + 1, fun f hf => ?_⟩
  obtain ⟨f', rfl⟩ : ∃ f', f = f' + 1 := ⟨f - 1, by omega⟩
  simp only [loop, hm, h1 f' (by omega), h2 f' (by omega)]

theorem step_loop_none {k : Nat} {ts : List Tok} {left : Expr} (hm : matchBin k ts = none) :
    Conv (fun f => loop f k left ts) (left, ts) := by
  refine ⟨1, fun f hf => ?_⟩
  obtain ⟨f', rfl⟩ : ∃ f', f = f' + 1 := ⟨f - 1, by omega⟩
  simp only [loop, hm]

theorem step_right_some {k : Nat} (hk : kind k = .rightAssoc) {ts r r' r'' : List Tok} {op : BOp} {l rt : Expr}
    (h1 : Conv (fun f => parse f (k + 1) ts) (l, r)) (hm : matchBin k r = some (op, r'))
    (h2 : Conv (fun f => parse f k r') (rt, r'')) :
    Conv (fun f => parse f k ts) (.bin op l rt, r'') := by
  obtain ⟨f1, h1⟩ := h1; obtain ⟨f2, h2⟩ := h2
  refine ⟨max f1 f2 + 1, fun f hf => ?_⟩
  obtain ⟨f', rfl⟩ : ∃ f', f = f' + 1 := ⟨f - 1, by omega⟩
  simp only [parse, hk, h1 f' (by omega), hm, h2 f' (by omega)]

theorem step_right_none {k : Nat} (hk : kind k = .rightAssoc) {ts r : List Tok} {l : Expr}
    (h1 : Conv (fun f => parse f (k + 1) ts) (l, r)) (hm : matchBin k r = none) :
    Conv (fun f => parse f k ts) (l, r) := by
  obtain ⟨f1, h1⟩ := h1
  refine ⟨f1 + 1, fun f hf => ?_⟩
  obtain ⟨f', rfl⟩ : ∃ f', f = f' + 1 := ⟨f - 1, by omega⟩
  simp only [parse, hk, h1 f' (by omega), hm]

theorem step_non_some {k : Nat} (hk : kind k = .nonAssoc) {ts r r' r'' : List Tok} {op : BOp} {l rt : Expr}
    (h1 : Conv (fun f => parse f (k + 1) ts) (l, r)) (hm : matchBin k r = some (op, r'))
    (h2 : Conv (fun f => parse f (k + 1) r') (rt, r'')) :
    Conv (fun f => parse f k ts) (.bin op l rt, r'') := by
  obtain ⟨f1, h1⟩ := h1; obtain ⟨f2, h2⟩ := h2
  refine ⟨max f1 f2 + 1, fun f hf => ?_⟩
  obtain ⟨f', rfl⟩ : ∃ f', f = f' + 1 := ⟨f - 1, by omega⟩
  simp only [parse, hk, h1 f' (by omega), hm, h2 f' (by omega)]

theorem step_non_none {k : Nat} (hk : kind k = .nonAssoc) {ts r : List Tok} {l : Expr}
    (h1 : Conv (fun f => parse f (k + 1) ts) (l, r)) (hm : matchBin k r = none) :
    Conv (fun f => parse f k ts) (l, r) := by
  obtain ⟨f1, h1⟩ := h1
  refine ⟨f1 + 1, fun f hf => ?_⟩
  obtain ⟨f', rfl⟩ : ∃ f', f = f' + 1 := ⟨f - 1, by omega⟩
  simp only [parse, hk, h1 f' (by omega), hm]

theorem step_pre_some {k : Nat} (hk : kind k = .prefix) {ts r r' : List Tok} {op : POp} {e : Expr}
    (hm : matchPre k ts = some (op, r)) (h1 : Conv (fun f => parse f k r) (e, r')) :
    Conv (fun f => parse f k ts) (.pre op e, r') := by
  obtain ⟨f1, h1⟩ := h1
  refine ⟨f1 + 1, fun f hf => ?_⟩
  obtain ⟨f', rfl⟩ : ∃ f', f = f' + 1 := ⟨f - 1, by omega⟩
  simp only [parse, hk, hm, h1 f' (by omega)]

theorem step_pre_none {k : Nat} (hk : kind k = .prefix) {ts : List Tok} {R : Res}
    (hm : matchPre k ts = none) (h1 : Conv (fun f => parse f (k + 1) ts) R) :
    Conv (fun f => parse f k ts) R := by
  obtain ⟨f1, h1⟩ := h1
  refine ⟨f1 + 1, fun f hf => ?_⟩
  obtain ⟨f', rfl⟩ : ∃ f', f = f' + 1 := ⟨f - 1, by omega⟩
  simp only [parse, hk, hm, h1 f' (by omega)]

theorem step_post {k : Nat} (hk : kind k = .postfix) {ts r : List Tok} {e : Expr} {R : Res}
    (h1 : Conv (fun f => parse f (k + 1) ts) (e, r)) (h2 : Conv (fun f => postLoop f e r) R) :
    Conv (fun f => parse f k ts) R := by
  obtain ⟨f1, h1⟩ := h1; obtain ⟨f2, h2⟩ := h2
  refine ⟨max f1 f2 + 1, fun f hf => ?_⟩
  obtain ⟨f', rfl⟩ : ∃ f', f = f' + 1 := ⟨f - 1, by omega⟩
  simp only [parse, hk, h1 f' (by omega), h2 f' (by omega)]

theorem postLoop_quest {e : Expr} {r : List Tok} {R : Res}
    (h : Conv (fun f => postLoop f (.try_ e) r) R) : Conv (fun f => postLoop f e (.quest :: r)) R := by
  obtain ⟨f1, h⟩ := h
  refine ⟨f1 + 1, fun f hf => ?_⟩
  obtain ⟨f', rfl⟩ : ∃ f', f = f' + 1 := ⟨f - 1, by omega⟩
  simp only [postLoop, h f' (by omega)]

theorem postLoop_index {e i : Expr} {r r' : List Tok} {R : Res}
    (h1 : Conv (fun f => parse f 0 r) (i, .rbrack :: r'))
    (h2 : Conv (fun f => postLoop f (.index e i) r') R) :
    Conv (fun f => postLoop f e (.lbrack :: r)) R := by
  obtain ⟨f1, h1⟩ := h1; obtain ⟨f2, h2⟩ := h2
  refine ⟨max f1 f2 + 1, fun f hf => ?_⟩
  obtain ⟨f', rfl⟩ : ∃ f', f = f' + 1 := ⟨f - 1, by omega⟩
  simp only [postLoop, h1 f' (by omega), h2 f' (by omega)]

theorem postLoop_done {e : Expr} {ts : List Tok}
    (h : ∀ r, ts ≠ .quest :: r ∧ ts ≠ .lbrack :: r) : Conv (fun f => postLoop f e ts) (e, ts) := by
  refine ⟨1, fun f hf => ?_⟩
  obtain ⟨f', rfl⟩ : ∃ f', f = f' + 1 := ⟨f - 1, by omega⟩
  cases ts with
  | nil => simp [postLoop]
  | cons t r =>
    cases t <;> simp [postLoop]
    · exact absurd rfl (h r).2
    · exact absurd rfl (h r).1

theorem prim_atom {k : Nat} (hk : kind k = .primary) (a : Nat) (r : List Tok) :
    Conv (fun f => parse f k (.atom a :: r)) (.atom a, r) := by
  refine ⟨1, fun f hf => ?_⟩
  obtain ⟨f', rfl⟩ : ∃ f', f = f' + 1 := ⟨f - 1, by omega⟩
  simp only [parse, hk]

theorem prim_paren {k : Nat} (hk : kind k = .primary) {r r' : List Tok} {e : Expr}
    (h1 : Conv (fun f => parse f 0 r) (e, .rparen :: r')) :
    Conv (fun f => parse f k (.lparen :: r)) (.paren e, r') := by
  obtain ⟨f1, h1⟩ := h1
  refine ⟨f1 + 1, fun f hf => ?_⟩
  obtain ⟨f', rfl⟩ : ∃ f', f = f' + 1 := ⟨f - 1, by omega⟩
  simp only [parse, hk, h1 f' (by omega)]

end Incan.Ladder

namespace Incan.Ladder

/-! ### Tokens that can continue an expression -/

/-- `rest` does not start with anything a parser function of level ≥ k would consume after a complete
operand: no binary operator of level ≥ k and (for k ≤ 9) no postfix token. -/
def NoCont (k : Nat) (rest : List Tok) : Prop :=
  (∀ i, k ≤ i → matchBin i rest = none) ∧ (k ≤ 9 → ∀ r, rest ≠ .quest :: r ∧ rest ≠ .lbrack :: r)

theorem matchBin_ge8 (i : Nat) (h : 8 ≤ i) (ts : List Tok) : matchBin i ts = none := by
  obtain ⟨j, rfl⟩ : ∃ j, i = j + 8 := ⟨i - 8, by omega⟩
  unfold matchBin
  split <;> first | rfl | omega

theorem NoCont.mono {k k' : Nat} {rest : List Tok} (h : NoCont k rest) (hk : k ≤ k') : NoCont k' rest :=
  ⟨fun i hi => h.1 i (by omega), fun h9 => h.2 (by omega)⟩

theorem noCont_ten (rest : List Tok) : NoCont 10 rest :=
  ⟨fun i hi => matchBin_ge8 i (by omega) rest, fun h => by omega⟩

theorem noCont_nil : NoCont 0 [] :=
  ⟨fun i _ => by unfold matchBin; split <;> simp_all, fun _ r => by simp⟩

theorem noCont_rparen (r : List Tok) : NoCont 0 (.rparen :: r) :=
  ⟨fun i _ => by unfold matchBin; split <;> simp_all, fun _ r' => by simp⟩

theorem noCont_rbrack (r : List Tok) : NoCont 0 (.rbrack :: r) :=
  ⟨fun i _ => by unfold matchBin; split <;> simp_all, fun _ r' => by simp⟩

theorem matchBin_bop (op : BOp) (x : List Tok) : matchBin (bopLevel op) (bopToks op ++ x) = some (op, x) := by
  cases op <;> rfl

theorem matchPre_pop (op : POp) (x : List Tok) : matchPre (popLevel op) (popTok op :: x) = some (op, x) := by
  cases op <;> rfl

/-- An operator of level `j` never continues an operand of a higher level: after the right operand's
predecessor has been parsed at level `j+1`, the operator is left for level `j`. -/
theorem noCont_bop (op : BOp) (x : List Tok) : NoCont (bopLevel op + 1) (bopToks op ++ x) := by
  refine ⟨fun i hi => ?_, fun _ r => by cases op <;> simp [bopToks]⟩
  by_cases h8 : 8 ≤ i
  · exact matchBin_ge8 i h8 _
  · have : i = 1 ∨ i = 2 ∨ i = 3 ∨ i = 4 ∨ i = 5 ∨ i = 6 ∨ i = 7 := by
      have : 1 ≤ i := by omega
      omega
    rcases this with rfl | rfl | rfl | rfl | rfl | rfl | rfl <;> cases op <;>
      first | rfl | (simp [bopLevel] at hi)

/-! ### First token of a printed expression -/

def hd : Expr → Tok
  | .atom a => .atom a
  | .paren _ => .lparen
  | .pre op _ => popTok op
  | .bin _ l _ => hd l
  | .try_ e => hd e
  | .index e _ => hd e

theorem fmt_hd (e : Expr) : ∃ tl, fmt e = hd e :: tl := by
  induction e with
  | atom a => exact ⟨[], rfl⟩
  | paren e _ => exact ⟨_, rfl⟩
  | pre op e _ => exact ⟨_, rfl⟩
  | bin op l r ihl _ => obtain ⟨tl, h⟩ := ihl; exact ⟨tl ++ bopToks op ++ fmt r, by simp [fmt, hd, h]⟩
  | try_ e ih => obtain ⟨tl, h⟩ := ih; exact ⟨tl ++ [.quest], by simp [fmt, hd, h]⟩
  | index e i ih _ => obtain ⟨tl, h⟩ := ih; exact ⟨tl ++ .lbrack :: fmt i ++ [.rbrack], by simp [fmt, hd, h]⟩

/-- A tree producible at comparison level or above never starts with `not`; one producible at postfix
level or above never starts with `-` or `await`. -/
theorem hd_level {k : Nat} {e : Expr} (h : WL k e) :
    (3 ≤ k → hd e ≠ .kwNot) ∧ (9 ≤ k → hd e ≠ .minus ∧ hd e ≠ .kwAwait) := by
  induction h with
  | up hk _ ih => exact ⟨fun h => ih.1 (by omega), fun h => ih.2 (by omega)⟩
  | atom a => simp [hd]
  | paren _ _ => simp [hd]
  | @pre op e _ _ => cases op <;> simp [hd, popTok, popLevel]
  | @binLeft op l r hk _ _ ihl _ => exact ihl
  | @binRight op l r hk _ _ ihl _ => exact ⟨fun h => ihl.1 (by omega), fun h => ihl.2 (by omega)⟩
  | @binNon op l r hk _ _ ihl _ => exact ⟨fun h => ihl.1 (by omega), fun h => ihl.2 (by omega)⟩
  | try_ _ ih => exact ih
  | index _ _ ihe _ => exact ihe

theorem matchPre_none_of_level {k : Nat} {e : Expr} (h : WL (k + 1) e) (hk : kind k = .prefix)
    (rest : List Tok) : matchPre k (fmt e ++ rest) = none := by
  obtain ⟨tl, htl⟩ := fmt_hd e
  have hl := hd_level h
  rw [htl]
  have : k = 2 ∨ k = 8 := by
    unfold kind at hk
    split at hk <;> simp_all
  rcases this with rfl | rfl
  · have := hl.1 (by omega)
    simp only [List.cons_append]
    unfold matchPre
    split <;> simp_all
  · have := hl.2 (by omega)
    simp only [List.cons_append]
    unfold matchPre
    split <;> simp_all

end Incan.Ladder
