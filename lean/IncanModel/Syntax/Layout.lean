/-
Model of the layout layer of the lexer: INDENT / DEDENT / NEWLINE generation, comments, blank lines,
CR, tabs, bracket-depth line continuation.

Mirrors:
  crates/incan_syntax/src/lexer/mod.rs     scan_token ('#', '\n', '\r', whitespace skipping, open/close_bracket,
                                           pending_dedents, tokenize's EOF dedents)
  crates/incan_syntax/src/lexer/indent.rs  handle_indentation

Abstraction boundary: every non-layout token (identifier, keyword, number, operator, punctuation,
string, f-string, byte string — including multi-line triple-quoted strings) is one atomic `Item.tok`;
how its characters are scanned is outside this model (validated by the correspondence: the harness
cuts the real source at the real lexer's own token spans).  Everything between tokens is modelled
character by character.

The lexer is factored into two stages that together are exactly the code's behaviour:
  `events`  : characters → line events (line start with its indentation width, tokens, newlines)
  `tokens`  : line events → token kinds, with the indent stack
-/
namespace Incan.Layout

inductive Item where
  | ch (c : Char)
  | tok (id : Nat) (opens closes : Bool)
  deriving DecidableEq, Repr

inductive Event where
  | lineStart (indent : Nat)     -- first token of a logical line is about to be read at this column
  | tok (id : Nat)
  | newline
  | bad                          -- a character the lexer rejects ("Unexpected character")
  deriving DecidableEq, Repr

inductive Mode where
  | ls (n : Nat)      -- at_line_start, counting indentation (`handle_indentation`)
  | cmtLs             -- inside a comment that started at line start
  | code              -- inside a logical line
  | cmtCode           -- inside a trailing comment
  deriving DecidableEq, Repr

structure S1 where
  mode : Mode
  depth : Nat                    -- bracket_depth
  out : List Event               -- emitted so far (in order)
  deriving Repr

def S1.init : S1 := { mode := .ls 0, depth := 0, out := [] }

/-- Process one item in `code` mode (the body of `scan_token` after whitespace skipping). -/
def codeStep (s : S1) : Item → S1
  | .ch ' ' | .ch '\t' | .ch '\r' => { s with mode := .code }
  | .ch '#' => { s with mode := .cmtCode }
  | .ch '\n' =>
    if s.depth > 0 then { s with mode := .code }                       -- implicit line continuation
    else { s with mode := .ls 0, out := s.out ++ [.newline] }
  | .ch _ => { s with mode := .code, out := s.out ++ [.bad] }
  | .tok id opens closes =>
    let d := if opens then s.depth + 1 else if closes then s.depth - 1 else s.depth
    -- `close_bracket` at depth 0 records "Unmatched closing bracket" and still emits the token
    let err := if closes ∧ ¬ opens ∧ s.depth = 0 then [Event.bad] else []
    { s with mode := .code, depth := d, out := s.out ++ err ++ [.tok id] }

def step1 (s : S1) (it : Item) : S1 :=
  match s.mode with
  | .ls n =>
    match it with
    | .ch ' ' => { s with mode := .ls (n + 1) }
    | .ch '\t' => { s with mode := .ls (n + 4) }
    | .ch '\r' => { s with mode := .ls n }
    | .ch '\n' => { s with mode := .ls 0 }
    | .ch '#' => { s with mode := .cmtLs }
    | it => codeStep { s with out := s.out ++ [.lineStart n] } it
  | .cmtLs =>
    match it with
    | .ch '\n' => { s with mode := .ls 0 }
    | _ => s
  | .code => codeStep s it
  | .cmtCode =>
    match it with
    | .ch '\n' => codeStep s (.ch '\n')
    | _ => s

def run1 (s : S1) (items : List Item) : S1 := items.foldl step1 s

/-- Stage 1: the line events of a source. -/
def events (items : List Item) : List Event := (run1 S1.init items).out

/-! ### Stage 2: the indent stack -/

inductive Tok where
  | indent | dedent | newline | tok (id : Nat) | eof | bad | inconsistent
  deriving DecidableEq, Repr

/-- Pop every level strictly above `n`; returns the remaining stack (top first) and the count. -/
def popTo (n : Nat) : List Nat → List Nat × Nat
  | [] => ([0], 0)                                  -- `indent_stack.push(0)` safety net
  | top :: rest =>
    if n ≥ top then (top :: rest, 0)
    else
      match rest with
      | [] => ([0], 1)
      | _ => let (st, c) := popTo n rest; (st, c + 1)

structure S2 where
  stack : List Nat               -- indent_stack, top first; bottom is 0
  out : List Tok
  deriving Repr

def S2.init : S2 := { stack := [0], out := [] }

def step2 (s : S2) : Event → S2
  | .lineStart n =>
    let cur := s.stack.headD 0
    if n > cur then { stack := n :: s.stack, out := s.out ++ [.indent] }
    else if n < cur then
      let (st, c) := popTo n s.stack
      let err := if st.headD 0 ≠ n then [Tok.inconsistent] else []
      { stack := st, out := s.out ++ err ++ List.replicate c .dedent }
    else s
  | .tok id => { s with out := s.out ++ [.tok id] }
  | .newline => { s with out := s.out ++ [.newline] }
  | .bad => { s with out := s.out ++ [.bad] }

def run2 (s : S2) (evs : List Event) : S2 := evs.foldl step2 s

/-- `tokenize`: all events, then one DEDENT per open block, then EOF. -/
def finish (s : S2) : List Tok := s.out ++ List.replicate (s.stack.length - 1) .dedent ++ [.eof]

def tokens (evs : List Event) : List Tok := finish (run2 S2.init evs)

/-- The whole layout layer. -/
def lex (items : List Item) : List Tok := tokens (events items)

end Incan.Layout
