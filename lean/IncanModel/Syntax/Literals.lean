/-
String and bytes literals: what the formatter writes and what the lexer reads back (C08).

Mirrors
  * `escape_string` and the `Literal::String` / `Literal::Bytes` arms of `Formatter::format_literal`
    (src/format/formatter.rs)
  * `Lexer::scan_string` (single-quoted form; the triple-quote test at its head), `scan_text_escape`,
    `scan_byte_string`, `scan_byte_escape` (crates/incan_syntax/src/lexer/strings.rs)
Text is a list of characters for strings; for bytes literals (pure ASCII text) it is a list of code points, so
that the arithmetic of `\xNN` needs no character lemmas.  The quote is always `"`: the formatter writes no other.
-/
namespace Incan.Literals

/-! ### Strings -/

/-- `escape_string`, one character. -/
def escChar (c : Char) : List Char :=
  if c = '\n' then ['\\', 'n']
  else if c = '\r' then ['\\', 'r']
  else if c = '\t' then ['\\', 't']
  else if c = '\\' then ['\\', '\\']
  else if c = '"' then ['\\', '"']
  else [c]

/-- The text between the quotes that `format_literal` writes for a string value. -/
def fmtStr (s : List Char) : List Char := s.flatMap escChar

def pushC (c : Char) : Option (List Char × List Char) → Option (List Char × List Char)
  | some (v, rest) => some (c :: v, rest)
  | none => none

/-- `scan_string` after the opening quote of a single-quoted literal: the value and the text after the closing
quote; `none` = a lexer error (unterminated). -/
def scanStr : List Char → Option (List Char × List Char)
  | [] => none
  | c :: rest =>
    if c = '"' then some ([], rest)
    else if c = '\n' then none
    else if c = '\\' then
      match rest with
      | [] => none
      | e :: rest' =>
        if e = 'n' then pushC '\n' (scanStr rest')
        else if e = 't' then pushC '\t' (scanStr rest')
        else if e = 'r' then pushC '\r' (scanStr rest')
        else if e = '\\' then pushC '\\' (scanStr rest')
        else if e = '"' then pushC '"' (scanStr rest')
        else pushC '\\' (pushC e (scanStr rest'))
    else pushC c (scanStr rest)

/-- The head of `scan_string`: two more quotes right after the opening one start a triple-quoted literal
(another scanner, not modelled: `none`). -/
def lexStr : List Char → Option (List Char × List Char)
  | '"' :: '"' :: '"' :: _ => none
  | '"' :: rest => scanStr rest
  | _ => none

/-! ### Bytes (code points) -/

def hexDigit (d : Nat) : Nat := if d < 10 then 48 + d else 87 + d

def hexVal (c : Nat) : Option Nat :=
  if 48 ≤ c ∧ c ≤ 57 then some (c - 48)
  else if 97 ≤ c ∧ c ≤ 102 then some (c - 87)
  else if 65 ≤ c ∧ c ≤ 70 then some (c - 55)
  else none

/-- The `Literal::Bytes` arm, one byte. -/
def escByte (b : Nat) : List Nat :=
  if b = 34 ∨ b = 92 then [92, b]
  else if 32 ≤ b ∧ b < 127 then [b]
  else [92, 120, hexDigit (b / 16), hexDigit (b % 16)]

def fmtBytes (bs : List Nat) : List Nat := bs.flatMap escByte

def pushB (b : Nat) : Option (List Nat × List Nat) → Option (List Nat × List Nat)
  | some (v, rest) => some (b :: v, rest)
  | none => none

/-- `u8::from_str_radix(hex, 16)` on the two characters after `\x` (a leading `+` is accepted by Rust). -/
def hexPair (h l : Nat) : Option Nat :=
  if h = 43 then hexVal l
  else match hexVal h, hexVal l with
    | some a, some b => some (16 * a + b)
    | _, _ => none

/-- `scan_byte_string` after `b"`: the bytes and the text after the closing quote; `none` = a lexer error. -/
def scanBytes : List Nat → Option (List Nat × List Nat)
  | [] => none
  | c :: rest =>
    if c = 34 then some ([], rest)
    else if c = 10 then none
    else if c = 92 then
      match rest with
      | [] => none
      | e :: rest' =>
        if e = 110 then pushB 10 (scanBytes rest')
        else if e = 116 then pushB 9 (scanBytes rest')
        else if e = 114 then pushB 13 (scanBytes rest')
        else if e = 92 then pushB 92 (scanBytes rest')
        else if e = 48 then pushB 0 (scanBytes rest')
        else if e = 120 then
          match rest' with
          | h :: l :: rest'' =>
            (match hexPair h l with
            | some b => pushB b (scanBytes rest'')
            | none => none)
          | _ => none
        else if e = 34 then pushB 34 (scanBytes rest')
        else pushB 92 (pushB (e % 256) (scanBytes rest'))   -- `c as u8`: an unknown escape keeps the low byte
    else if c < 128 then pushB c (scanBytes rest)
    else none

end Incan.Literals
