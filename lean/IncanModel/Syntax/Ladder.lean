/-
Model of the expression precedence ladder: the parser's recursive descent and the formatter's printer,
at token level.

Mirrors:
  crates/incan_syntax/src/parser/expr.rs   expression → or_expr → and_expr → not_expr → comparison →
                                           range_expr → additive → multiplicative → power → unary →
                                           postfix → primary (paren_or_tuple's parenthesised case)
  src/format/formatter.rs                  format_expr arms Binary / Unary / Await / Try / Index / Paren /
                                           Range / Ident / Literal (a binary node is printed as
                                           `left op right` — no parentheses are ever added)

The eleven parser functions share four shapes; the model is one fuel-indexed parser driven by the
level table `kind`, so that each shape is written (and proved) once:
  0 or, 1 and           left-assoc loop over the next level
  2 not                 prefix, recursive at its own level
  3 comparison          left-assoc loop (`not in` is two tokens)
  4 range               next (`..`|`..=` next)?            -- non-associative
  5 additive, 6 mult.   left-assoc loops
  7 power               next (`**` power)?                 -- right-associative over *unary*
  8 unary               prefix `-` / `await`, recursive
  9 postfix             primary then a loop of `?` and `[expr]`
  10 primary            atom | `(` expression `)`
Atoms (identifiers, literals, calls, …) are opaque.  Text-level lexing of the printed form is outside
this model (the correspondence check compares real ASTs).
-/
namespace Incan.Ladder

inductive BOp where
  | or_ | and_
  | eq | ne | lt | gt | le | ge | in_ | notIn | is_
  | range | rangeIncl
  | add | sub
  | mul | floorDiv | div | mod
  | pow
  deriving DecidableEq, Repr

inductive POp where | not_ | neg | await_
  deriving DecidableEq, Repr

inductive Tok where
  | atom (a : Nat)
  | lparen | rparen | lbrack | rbrack | quest
  | kwOr | kwAnd | kwNot | kwIn | kwIs | kwAwait
  | eqeq | noteq | lt | gt | lteq | gteq
  | dotdot | dotdoteq
  | plus | minus | star | slashslash | slash | percent | starstar
  deriving DecidableEq, Repr

inductive Expr where
  | atom (a : Nat)
  | paren (e : Expr)
  | pre (op : POp) (e : Expr)
  | bin (op : BOp) (l r : Expr)
  | try_ (e : Expr)
  | index (e i : Expr)
  deriving DecidableEq, Repr

inductive Kind where | leftAssoc | rightAssoc | nonAssoc | prefix | postfix | primary
  deriving DecidableEq, Repr

def kind : Nat → Kind
  | 0 | 1 | 3 | 5 | 6 => .leftAssoc
  | 2 | 8 => .prefix
  | 4 => .nonAssoc
  | 7 => .rightAssoc
  | 9 => .postfix
  | _ => .primary

/-- The binary operator (if any) that the level-`k` function accepts at the head of the input. -/
def matchBin : Nat → List Tok → Option (BOp × List Tok)
  | 0, .kwOr :: r => some (.or_, r)
  | 1, .kwAnd :: r => some (.and_, r)
  | 3, .eqeq :: r => some (.eq, r)
  | 3, .noteq :: r => some (.ne, r)
  | 3, .lt :: r => some (.lt, r)
  | 3, .gt :: r => some (.gt, r)
  | 3, .lteq :: r => some (.le, r)
  | 3, .gteq :: r => some (.ge, r)
  | 3, .kwIn :: r => some (.in_, r)
  | 3, .kwNot :: .kwIn :: r => some (.notIn, r)
  | 3, .kwIs :: r => some (.is_, r)
  | 4, .dotdoteq :: r => some (.rangeIncl, r)
  | 4, .dotdot :: r => some (.range, r)
  | 5, .plus :: r => some (.add, r)
  | 5, .minus :: r => some (.sub, r)
  | 6, .star :: r => some (.mul, r)
  | 6, .slashslash :: r => some (.floorDiv, r)
  | 6, .slash :: r => some (.div, r)
  | 6, .percent :: r => some (.mod, r)
  | 7, .starstar :: r => some (.pow, r)
  | _, _ => none

/-- The prefix operator (if any) accepted at level `k`. -/
def matchPre : Nat → List Tok → Option (POp × List Tok)
  | 2, .kwNot :: r => some (.not_, r)
  | 8, .minus :: r => some (.neg, r)
  | 8, .kwAwait :: r => some (.await_, r)
  | _, _ => none

mutual
/-- `parse fuel k ts`: the parser function of ladder level `k`. -/
def parse : Nat → Nat → List Tok → Option (Expr × List Tok)
  | 0, _, _ => none
  | f + 1, k, ts =>
    match kind k with
    | .leftAssoc =>
      match parse f (k + 1) ts with
      | some (l, r) => loop f k l r
      | none => none
    | .rightAssoc =>
      match parse f (k + 1) ts with
      | some (l, r) =>
        match matchBin k r with
        | some (op, r') =>
          match parse f k r' with
          | some (rt, r'') => some (.bin op l rt, r'')
          | none => none
        | none => some (l, r)
      | none => none
    | .nonAssoc =>
      match parse f (k + 1) ts with
      | some (l, r) =>
        match matchBin k r with
        | some (op, r') =>
          match parse f (k + 1) r' with
          | some (rt, r'') => some (.bin op l rt, r'')
          | none => none
        | none => some (l, r)
      | none => none
    | .prefix =>
      match matchPre k ts with
      | some (op, r) =>
        match parse f k r with
        | some (e, r') => some (.pre op e, r')
        | none => none
      | none => parse f (k + 1) ts
    | .postfix =>
      match parse f (k + 1) ts with
      | some (e, r) => postLoop f e r
      | none => none
    | .primary =>
      match ts with
      | .atom a :: r => some (.atom a, r)
      | .lparen :: r =>
        match parse f 0 r with
        | some (e, .rparen :: r') => some (.paren e, r')
        | _ => none
      | _ => none

/-- The `while`/`loop` of a left-associative level, with the accumulated left operand. -/
def loop : Nat → Nat → Expr → List Tok → Option (Expr × List Tok)
  | 0, _, _, _ => none
  | f + 1, k, left, ts =>
    match matchBin k ts with
    | some (op, r) =>
      match parse f (k + 1) r with
      | some (rt, r') => loop f k (.bin op left rt) r'
      | none => none
    | none => some (left, ts)

/-- The loop of `postfix`. -/
def postLoop : Nat → Expr → List Tok → Option (Expr × List Tok)
  | 0, _, _ => none
  | f + 1, e, ts =>
    match ts with
    | .quest :: r => postLoop f (.try_ e) r
    | .lbrack :: r =>
      match parse f 0 r with
      | some (i, .rbrack :: r') => postLoop f (.index e i) r'
      | _ => none
    | _ => some (e, ts)
end

/-! ### The formatter (token level) -/

def bopToks : BOp → List Tok
  | .or_ => [.kwOr] | .and_ => [.kwAnd]
  | .eq => [.eqeq] | .ne => [.noteq] | .lt => [.lt] | .gt => [.gt] | .le => [.lteq] | .ge => [.gteq]
  | .in_ => [.kwIn] | .notIn => [.kwNot, .kwIn] | .is_ => [.kwIs]
  | .range => [.dotdot] | .rangeIncl => [.dotdoteq]
  | .add => [.plus] | .sub => [.minus]
  | .mul => [.star] | .floorDiv => [.slashslash] | .div => [.slash] | .mod => [.percent]
  | .pow => [.starstar]

def popTok : POp → Tok
  | .not_ => .kwNot | .neg => .minus | .await_ => .kwAwait

/-- `format_expr`: children are printed as they are; only explicit `Paren` nodes print parentheses. -/
def fmt : Expr → List Tok
  | .atom a => [.atom a]
  | .paren e => .lparen :: fmt e ++ [.rparen]
  | .pre op e => popTok op :: fmt e
  | .bin op l r => fmt l ++ bopToks op ++ fmt r
  | .try_ e => fmt e ++ [.quest]
  | .index e i => fmt e ++ .lbrack :: fmt i ++ [.rbrack]

/-- Ladder level of each binary / prefix operator. -/
def bopLevel : BOp → Nat
  | .or_ => 0 | .and_ => 1
  | .eq | .ne | .lt | .gt | .le | .ge | .in_ | .notIn | .is_ => 3
  | .range | .rangeIncl => 4
  | .add | .sub => 5
  | .mul | .floorDiv | .div | .mod => 6
  | .pow => 7

def popLevel : POp → Nat
  | .not_ => 2 | .neg | .await_ => 8

/-- `WL k e`: `e` is a tree the level-`k` parser function can return ("producible at level k").
Every AST the real parser builds satisfies `WL 0`. -/
inductive WL : Nat → Expr → Prop where
  | up {k e} : k < 10 → WL (k + 1) e → WL k e
  | atom (a) : WL 10 (.atom a)
  | paren {e} : WL 0 e → WL 10 (.paren e)
  | pre {op e} : WL (popLevel op) e → WL (popLevel op) (.pre op e)
  | binLeft {op l r} : kind (bopLevel op) = .leftAssoc → WL (bopLevel op) l → WL (bopLevel op + 1) r →
      WL (bopLevel op) (.bin op l r)
  | binRight {op l r} : kind (bopLevel op) = .rightAssoc → WL (bopLevel op + 1) l → WL (bopLevel op) r →
      WL (bopLevel op) (.bin op l r)
  | binNon {op l r} : kind (bopLevel op) = .nonAssoc → WL (bopLevel op + 1) l → WL (bopLevel op + 1) r →
      WL (bopLevel op) (.bin op l r)
  | try_ {e} : WL 9 e → WL 9 (.try_ e)
  | index {e i} : WL 9 e → WL 0 i → WL 9 (.index e i)

end Incan.Ladder
