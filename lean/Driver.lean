import IncanModel.Driver.C01
import IncanModel.Driver.C02
import IncanModel.Driver.C03
import IncanModel.Driver.C04
import IncanModel.Driver.C05
import IncanModel.Driver.C06
import IncanModel.Driver.C07
import IncanModel.Driver.C08
import IncanModel.Driver.C09
import IncanModel.Driver.C10
import IncanModel.Driver.C12
import IncanModel.Driver.C13
import IncanModel.Driver.C14
import IncanModel.Driver.C15
import IncanModel.Driver.C16
import IncanModel.Driver.C17
import IncanModel.Driver.C18
import IncanModel.Driver.C19
import IncanModel.Driver.C20

open Incan.Driver

def dispatch (line : String) : String :=
  match line.trimAscii.toString.splitOn " " with
  | "c01" :: rest => handleC01 rest
  | "c02" :: rest => handleC02 rest
  | "c03" :: rest => handleC03 rest
  | "c04" :: rest => handleC04 rest
  | "c05" :: rest => handleC05 rest
  | "c06" :: rest => handleC06 rest
  | "c07" :: rest => handleC07 rest
  | "c08" :: rest => handleC08 rest
  | "c09" :: rest => handleC09 rest
  | "c10" :: rest => handleC10 rest
  | "c12" :: rest => handleC12 rest
  | "c13" :: rest => handleC13 rest
  | "c14" :: rest => handleC14 rest
  | "c15" :: rest => handleC15 rest
  | "c16" :: rest => handleC16 rest
  | "c17" :: rest => handleC17 rest
  | "c18" :: rest => handleC18 rest
  | "c19" :: rest => handleC19 rest
  | "c20" :: rest => handleC20 rest
  | "c11" :: rest => handleC19 rest
  | _ => "bad-op"

partial def loop (h : IO.FS.Stream) (out : IO.FS.Stream) : IO Unit := do
  let line ← h.getLine
  if line.isEmpty then return ()
  out.putStrLn (dispatch line)
  loop h out

def main : IO Unit := do
  let out ← IO.getStdout
  loop (← IO.getStdin) out
  out.flush
